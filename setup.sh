#!/bin/sh
# Build the overlay venv used by every check: /venv's packages + crosshair-tool/z3 from the offline wheelhouse.
# Idempotent; safe under concurrent invocation (flock).
set -e
HERE="$(cd "$(dirname "$0")" && pwd)"
VENV="$HERE/.venv"
exec 9>"$HERE/.setup.lock"
flock 9
if [ -x "$VENV/bin/crosshair" ] && "$VENV/bin/python" -c "import crosshair, z3" 2>/dev/null; then
  exit 0
fi
rm -rf "$VENV"
/venv/bin/python -m venv "$VENV"
SP="$("$VENV/bin/python" -c 'import sysconfig; print(sysconfig.get_paths()["purelib"])')"
echo "import site; site.addsitedir('/venv/lib/python3.12/site-packages')" > "$SP/_verif_overlay.pth"
PIP_NO_INDEX=1 "$VENV/bin/pip" install -q --no-index --find-links /opt/veriftools/wheels crosshair-tool
"$VENV/bin/python" -c "import crosshair, z3; print('crosshair', crosshair.__version__ if hasattr(crosshair,'__version__') else 'ok', 'z3', z3.get_version_string())"
