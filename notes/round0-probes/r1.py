import asyncio, w2
# swap the loop class for the stock selector loop, keep manual stepping
class Stock(asyncio.SelectorEventLoop):
    pass
w2.DetLoop = Stock
import logging; logging.disable(logging.NOTSET)
print("T1 witness on stock loop:", w2.run(1, 0, 1, 3, 1, 2, 0))
print("healthy on stock loop:", w2.run(2, 0, 3, 1, 0, 2, 1))
