from w2 import *

def c14(n: int, m: int, rel: int) -> int:
    """
    pre: 0 <= m <= 3 and 0 <= rel <= 3
    post: _ == 0
    """
    w = World()
    try:
        fn = w.worker_fn()
        pool = SimpleTaskPool(fn)
        pool.start(m); w.settle()
        if rel < len(w.gates): w.gates[rel].set_result(None)
        w.settle()
        running = [i for i in range(m) if i != rel]
        ids = pool.stop(n)
        w.settle()
        k = max(0, min(n, len(running)))
        want = list(reversed(running))[:k]
        if ids != want: return 1
        for i in range(m):
            exp = "ok" if i == rel else ("cancelled" if i in want else None)
            if w.outcome.get(i) != exp: return 2
        return 0
    finally:
        w.close()

def c06(i1: int, i2: int) -> int:
    """
    post: _ == 0
    """
    w = World()
    try:
        fn = w.worker_fn()
        pool = TaskPool()
        pool.apply(fn, num=3); w.settle()
        w.gates[1].set_result(None); w.settle()     # task 1 ended
        exc = None
        try: pool.cancel(i1, i2)
        except AlreadyCancelled: exc = "c"
        except AlreadyEnded: exc = "e"
        except InvalidTaskID: exc = "i"
        w.settle()
        def cls(i):
            if i == 0 or i == 2: return None
            if i == 1: return "e"
            return "i"
        want = cls(i1) or cls(i2)
        if exc != want: return 1
        for t in (0, 2):
            hit = (want is None) and (i1 == t or i2 == t)
            if (w.outcome.get(t) == "cancelled") != hit: return 2
        return 0
    finally:
        w.close()

def c05(conc: int, size: int, L: int) -> int:
    """
    pre: conc >= 1 and size >= 0 and 0 <= L <= 3
    post: _ == 0
    """
    w = World()
    try:
        fn = w.worker_fn()
        pool = TaskPool(pool_size=size)
        pulled = [0]
        def gen():
            for j in range(L):
                pulled[0] += 1
                yield j
        pool.map(fn, gen(), num_concurrent=conc)
        w.settle()
        if w.live > conc or w.live > size: return 1
        if pulled[0] > len(w.started) + 1: return 2
        want = min(conc, size, L)
        if w.live != want: return 3
        return 0
    finally:
        w.close()
