"""Exploratory scan #4 (NOT the technique): map family (C05) and group cancel (C07) oracles."""
import itertools, collections, sys
from scan import *
sys.unraisablehook = lambda *a: None

def run(prog, size, conc, L, stars, t_early, bad, cbkind, opn):
    w = World(size, opn); p = w.pool
    ecb, ccb = w.callbacks(cbkind)
    st = {"pulled": 0, "cancel_seen": False, "skipped": 0}
    def gen():
        for j in range(L):
            st["pulled"] += 1
            if st["cancel_seen"]: w.fail(701)
            x = j
            if stars == 1: x = (j, j + 10)
            if stars == 2: x = {"a": j, "b": j + 10}
            if j == bad:
                x = {0: (1, 2, 3), 1: 5, 2: {"zz": 1}}[stars]   # call raises TypeError
            yield x
    base = w.worker(1)
    if stars == 0:
        async def f(x): return await base(x)
    elif stars == 1:
        async def f(x, y): return await base(x, y)
    else:
        async def f(a, b): return await base(a, b)
    if stars == 0 and bad >= 0:
        inner = f
        def f2(x):
            if isinstance(x, tuple): raise TypeError("bad")
            return inner(x)
        import functools
        async def f(x):
            pass
        # need coroutine function that raises at call time: use a wrapper object
        class CF:
            __name__ = "cf"
            def __call__(self, x):
                if isinstance(x, tuple): raise TypeError("bad")
                return inner(x)
        f = CF()
        import asyncio.coroutines as ac
        f._is_coroutine_marker = ac._is_coroutine_marker if hasattr(ac, "_is_coroutine_marker") else None
    other = w.worker(0)
    def livecall(): return sum(1 for r in w.W if r["req"] == 1 and r["state"] == "run")
    def created(): 
        try: return len(p.get_group_ids(g))
        except PoolException: return None
    def mon():
        if p.num_running > size: w.fail(101)
        if livecall() > conc: w.fail(502)
        c = created()
        if c is not None:
            started = sum(1 for r in w.W if r["req"] == 1)
            skipped = 1 if (0 <= bad < st["pulled"] - 0 and bad < L and st["pulled"] > bad + 0 and (st["pulled"] - 1 > bad or False)) else 0
            if st["pulled"] > c + 1 + (1 if 0 <= bad < st["pulled"] else 0): w.fail(503)
    w.monitor = mon
    try:
        try:
            if stars == 0: g = p.map(f, gen(), num_concurrent=conc, end_callback=ecb, cancel_callback=ccb)
            elif stars == 1: g = p.starmap(f, gen(), num_concurrent=conc, end_callback=ecb, cancel_callback=ccb)
            else: g = p.doublestarmap(f, gen(), num_concurrent=conc, end_callback=ecb, cancel_callback=ccb)
        except NotCoroutineFunction:
            return -1
        w.ticks(t_early)
        cancelled = False
        for (op, a) in prog:
            if op == "rel":
                if a < len(w.W) and not w.W[a]["gate"].done(): w.W[a]["gate"].set_result(None)
            elif op == "fail":
                if a < len(w.W) and not w.W[a]["gate"].done(): w.W[a]["gate"].set_exception(ValueError("x"))
            elif op == "cancel":
                w.t1_guard([a])
                try: p.cancel(a)
                except PoolException: pass
            elif op == "other":
                p.apply(other, num=a)
            elif op == "cgroup":
                if not cancelled:
                    w.t1_guard(list(p.get_group_ids(g)))
                    n_started = sum(1 for r in w.W if r["req"] == 1)
                    p.cancel_group(g); cancelled = True; st["cancel_seen"] = True
                    st["started_at_cancel"] = n_started
            w.settle()
            # idle: work conserving
            if not cancelled and cbkind != 3:
                remaining = st["pulled"] < L or False
                # elements remain if generator not exhausted: we know exhausted only when pulled == L and the consumer tried again; approximate by created+skipped < L
                c = created(); sk = 1 if 0 <= bad < st["pulled"] else 0
                if c is not None and c + sk < L and not p.is_full:
                    if livecall() != conc: w.fail(504)
        w.drain()
        if w.err: return w.err
        mine = [r for r in w.W if r["req"] == 1]
        if cancelled:
            if len(mine) > st["started_at_cancel"] + 0:
                # tasks created-but-unstarted at cancel time never start; so no new starts at all
                return 702
            try:
                p.get_group_ids(g); return 703
            except InvalidGroupName: pass
        else:
            exp = [j for j in range(L) if j != bad]
            if stars == 0: got = [r["args"][0] for r in mine]
            else: got = [r["args"][0] for r in mine]
            if got != exp: return 501
            if stars and any(r["args"][1] != r["args"][0] + 10 for r in mine): return 505
        before = len(w.W); p.apply(other, num=size + 1); w.settle()
        if len(w.W) - before != size: return 205
        return 0
    except Excluded:
        return 0
    finally:
        w.close()

if __name__ == "__main__":
    ops = [("rel", 0), ("rel", 1), ("rel", 2), ("fail", 0), ("cancel", 0), ("cancel", 1), ("other", 1), ("cgroup", 0)]
    K = int(sys.argv[1])
    res = collections.Counter(); ex = {}
    for prog in itertools.product(ops, repeat=K):
        for size in (1, 2, 3):
            for conc in (1, 2, 4):
                for stars in (0, 1, 2):
                    for bad in (-1, 0, 1):
                        if stars == 0 and bad >= 0: continue
                        for t in (0, 1, 2, 3, 99):
                            for opn in ((), ("T1",)):
                                cfg = (prog, size, conc, 3, stars, t, bad, 1, opn)
                                try: r = run(*cfg)
                                except Excluded: r = 0
                                except Exception as e: r = "EXC:" + type(e).__name__ + ":" + str(e)[:50]
                                res[(r, opn)] += 1; ex.setdefault((r, opn), cfg)
    for k, v in sorted(res.items(), key=str): print(k, v, ex[k])
