"""Exploratory scan #5 (NOT the technique): C12 fault containment + C04 counts."""
import itertools, collections, sys
from scan import *
sys.unraisablehook = lambda *a: None

class Boom(Exception): pass

def run(prog, size, faults, retexc, use_gather, healthy=False):
    # faults: dict with keys 'endcb' (set of ids), 'cancelcb' (set of ids), 'async' bool, 'callsite' (invocation index or -1)
    w = World(size, ()); p = w.pool
    injected = []
    def mk(kind, ids, isasync):
        def body(i):
            w.cb.append((kind, i))
            if (not healthy) and i in ids:
                e = Boom(kind, i); injected.append(e); raise e
        if isasync:
            async def cb(i): body(i)
            return cb
        return body
    ecb = mk("end", faults["endcb"], faults["async"]); ccb = mk("cancel", faults["cancelcb"], faults["async"])
    calls = [0]
    base = w.worker(0)
    class CF:
        __name__ = "cf"
        def __call__(self, *a, **k):
            calls[0] += 1
            if (not healthy) and calls[0] - 1 == faults["callsite"]:
                raise Boom("call")
            return base(*a, **k)
    import asyncio.coroutines as ac
    f = CF(); f._is_coroutine = ac._is_coroutine
    sib = w.worker(1)
    trace = []
    try:
        p.apply(f, num=3, end_callback=ecb, cancel_callback=ccb)
        p.apply(sib, num=2)
        w.settle()
        for (op, a) in prog:
            if op == "rel":
                if a < len(w.W) and not w.W[a]["gate"].done(): w.W[a]["gate"].set_result(None)
            elif op == "fail":
                if a < len(w.W) and not w.W[a]["gate"].done():
                    if healthy: w.W[a]["gate"].set_result(None)
                    else:
                        e = Boom("worker", a); injected.append(e); w.W[a]["gate"].set_exception(e)
            elif op == "cancel":
                try: p.cancel(a)
                except PoolException: pass
            elif op == "later":
                p.apply(sib, num=1)
            w.settle()
            trace.append(tuple((r["req"], r["state"]) for r in w.W if r["req"] == 1))
        w.drain()
        trace.append(tuple((r["req"], r["state"]) for r in w.W if r["req"] == 1))
        if w.err: return w.err, trace
        res = None
        fut = asyncio.ensure_future((p.gather_and_close if use_gather else p.flush)(return_exceptions=retexc), loop=w.loop)
        w.settle()
        if not fut.done(): return 1201, trace
        if fut.cancelled(): return 1202, trace
        exc = fut.exception()
        if retexc and exc is not None: return 1203, trace
        if not retexc:
            if injected and not healthy:
                if exc is None: return 1204, trace
                if not any(exc is e for e in injected): return 1205, trace
            elif exc is not None: return 1206, trace
        if not use_gather and (retexc or not injected):
            before = len(w.W); p.apply(sib, num=size + 1); w.settle()
            if len(w.W) - before != size: return 205, trace
        return 0, trace
    finally:
        w.close()

if __name__ == "__main__":
    ops = [("rel", 0), ("rel", 1), ("rel", 3), ("fail", 0), ("fail", 1), ("cancel", 0), ("cancel", 2), ("later", 0)]
    K = int(sys.argv[1])
    res = collections.Counter(); ex = {}
    for prog in itertools.product(ops, repeat=K):
        for size in (2, 3, 9):
            for endcb in (set(), {0}, {1, 2}):
                for cancelcb in (set(), {0}, {2}):
                    for isasync in (False, True):
                        for callsite in (-1, 0, 1):
                            for retexc in (False, True):
                                for use_gather in (False, True):
                                    fl = {"endcb": endcb, "cancelcb": cancelcb, "async": isasync, "callsite": callsite}
                                    cfg = (prog, size, fl, retexc, use_gather)
                                    try:
                                        r, tr = run(*cfg)
                                        if callsite < 0:
                                            r2, tr2 = run(*cfg, healthy=True)
                                            if r == 0 and tr != tr2: r = 1210
                                    except Exception as e: r = "EXC:" + type(e).__name__ + ":" + str(e)[:50]
                                    res[r] += 1; ex.setdefault(r, cfg)
    for k, v in sorted(res.items(), key=str): print(k, v, ex[k])
