import asyncio, logging
from asyncio_taskpool import TaskPool, SimpleTaskPool
from asyncio_taskpool.exceptions import *
logging.disable(logging.CRITICAL)

async def ticks(n=8):
    for _ in range(n): await asyncio.sleep(0)

def mk():
    st = {"live":0,"peak":0,"gates":[], "started":[], "ended":[]}
    async def worker(*a, **k):
        st["live"]+=1; st["peak"]=max(st["peak"],st["live"])
        g=asyncio.Event(); st["gates"].append(g); st["started"].append((a,k))
        try: await g.wait()
        finally: st["live"]-=1
    return st, worker

async def t_c15_getter():
    st,w=mk(); p=TaskPool(pool_size=3); p.apply(w,num=2); await ticks()
    print("C15 getter: size 3, running 2 -> pool_size =", p.pool_size)
    p.cancel_all(); await ticks()

async def t_c15_setter():
    st,w=mk(); p=TaskPool(pool_size=2); p.apply(w,num=4); await ticks()
    p.pool_size=2; await ticks()
    for g in list(st["gates"]): g.set()
    await ticks()
    print("C01/C15 setter: size 2 reassigned 2 while 2 running: peak", st["peak"], "running", p.num_running)
    p.cancel_all(); await ticks()
    st,w=mk(); p=TaskPool(pool_size=1); p.apply(w,num=3); await ticks()
    p.pool_size=3; await ticks()
    print("C15 increase 1->3 with 2 waiting: live", st["live"])
    p.cancel_all(); await ticks()

async def t_c02_cancel_before_first_step():
    st,w=mk(); ends=[]
    p=TaskPool(pool_size=2)
    p.apply(w,num=1,end_callback=lambda i: ends.append(i))
    # step until task registered but not yet started
    for i in range(10):
        await asyncio.sleep(0)
        if p.num_running: break
    print(" registered after ticks", i+1, "live", st["live"])
    p.cancel(0)
    await ticks()
    print("C02 cancel-before-first-step: num_running", p.num_running, "cancelled", p.num_cancelled, "ended", p.num_ended, "ends", ends, "sem value", p._enough_room._value)

async def t_c04_lock_after_accept():
    st,w=mk(); p=TaskPool(pool_size=1); g=p.apply(w,num=3); await ticks()
    p.lock()
    st["gates"][0].set(); await ticks()
    print("C04 lock after accept: started", len(st["started"]), "of 3")
    p.unlock()
    for x in st["gates"]: x.set()
    await ticks()
    print("   after unlock+release: started", len(st["started"]))
    try:
        await p.gather_and_close()
        print("   gather ok")
    except Exception as e: print("   gather raised", type(e).__name__, e)

async def t_c08():
    st,w=mk(); p=TaskPool(pool_size=5)
    def gen():
        for i in range(4): yield i
    g1=p.map(w, gen(), num_concurrent=1)
    g2=p.apply(w,num=1)
    p.cancel_group(g2)   # cancelled before spawner ran
    async def releaser():
        for _ in range(30):
            await asyncio.sleep(0)
            for x in st["gates"]: x.set()
    r=asyncio.create_task(releaser())
    try:
        await p.gather_and_close()
        print("C08 gather returned; live", st["live"], "started", len(st["started"]), "of 4")
    except Exception as e: print("C08 gather raised", type(e).__name__, e)
    await r
    print("   after: started", len(st["started"]), "live", st["live"])

async def t_c13():
    st,w=mk(); p=TaskPool(pool_size=2)
    slow=asyncio.Event()
    async def ccb(i): await slow.wait()
    ends=[]
    p.apply(w,num=2,cancel_callback=ccb,end_callback=lambda i: ends.append(i)); await ticks()
    p.cancel(0); await ticks()       # task 0 now in cancelled, inside slow callback
    fl=asyncio.create_task(p.flush()); await ticks()
    p.cancel(1); await ticks()       # task 1 becomes cancelled while flush suspended
    # now finish task 0's callback only? both wait on slow... use separate events
    slow.set(); await ticks()
    print("C13: flush done", fl.done(), "exc", fl.exception() if fl.done() else None, "counts", p.num_running,p.num_cancelled,p.num_ended, "ends", ends, "sem", p._enough_room._value)

for t in [t_c15_getter,t_c15_setter,t_c02_cancel_before_first_step,t_c04_lock_after_accept,t_c08,t_c13]:
    try: asyncio.run(t())
    except Exception as e: print(t.__name__,"EXC",type(e).__name__,e)
