import asyncio, logging
from asyncio_taskpool import TaskPool, SimpleTaskPool
from asyncio_taskpool.exceptions import *
logging.disable(logging.CRITICAL)
from d1 import ticks, mk

async def t_c13():
    st,w=mk(); p=TaskPool(pool_size=2)
    slow={0:asyncio.Event(),1:asyncio.Event()}
    async def ccb(i): await slow[i].wait()
    ends=[]
    p.apply(w,num=2,cancel_callback=ccb,end_callback=lambda i: ends.append(i)); await ticks()
    p.cancel(0); await ticks()
    fl=asyncio.create_task(p.flush()); await ticks()
    p.cancel(1); await ticks()
    slow[0].set(); await ticks()
    print("C13: flush done", fl.done(), "counts", p.num_running,p.num_cancelled,p.num_ended, "ends", ends, "sem", p._enough_room._value)
    slow[1].set(); await ticks()
    print("C13: after task1 cb: counts", p.num_running,p.num_cancelled,p.num_ended, "ends", ends, "sem", p._enough_room._value)

async def t_c07():
    # cancel_group lands just after a slot was handed to the spawner
    st,w=mk(); p=TaskPool(pool_size=1)
    gA=p.apply(w,num=1,group_name="A"); await ticks()
    gB=p.apply(w,num=2,group_name="B"); await ticks()   # B's spawner waits for room
    st["gates"][0].set()
    # step tick by tick; cancel B right after slot handed over
    for i in range(10):
        await asyncio.sleep(0)
        if p._enough_room._value==0 and p.num_running==0:
            break
    print(" tick",i,"sem",p._enough_room._value,"running",p.num_running,"started",len(st["started"]))
    p.cancel_group("B"); await ticks()
    print("C07 handoff race: started",len(st["started"]),"running",p.num_running,"sem",p._enough_room._value,"groups",list(p._task_groups))

for t in [t_c13,t_c07]:
    try: asyncio.run(t())
    except Exception as e: print(t.__name__,"EXC",type(e).__name__,e)
