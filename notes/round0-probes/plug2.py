def _install():
    import os, time, atexit, json
    import crosshair.core as core
    from crosshair.core import NoTracing
    from crosshair.libimpl.builtinslib import SymbolicInt
    import z3
    _orig = core._PATCH_REGISTRATIONS[format]
    def _format(obj, format_spec=""):
        with NoTracing():
            t = type(obj)
            symint = isinstance(obj, SymbolicInt)
            plain_user = (not t.__module__.startswith("crosshair")) and t not in (list, dict, set, tuple, frozenset) and t.__format__ is object.__format__
        if symint:
            return "<symbolic-int>"
        if format_spec == "" and plain_user:
            return str(obj)
        return _orig(obj, format_spec)
    core._PATCH_REGISTRATIONS[format] = _format
    # path log fd opened before the audit wall is engaged
    path = os.environ.get("VERIF_PATHLOG")
    stats = {"checks": 0, "solver_s": 0.0}
    if path:
        fd = os.open(path, os.O_WRONLY | os.O_CREAT | os.O_APPEND, 0o644)
        import builtins
        builtins._verif_log_fd = fd
    oc = z3.Solver.check
    def check(self, *a):
        t0 = time.perf_counter()
        try:
            return oc(self, *a)
        finally:
            stats["checks"] += 1; stats["solver_s"] += time.perf_counter() - t0
    z3.Solver.check = check
    def fin():
        if path:
            os.write(builtins._verif_log_fd, (json.dumps({"stats": stats}) + "\n").encode())
    atexit.register(fin)
_install()
