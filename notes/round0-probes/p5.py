import asyncio, logging
from asyncio_taskpool import TaskPool
logging.disable(logging.CRITICAL)

class DetLoop(asyncio.SelectorEventLoop):
    def time(self):
        return 0.0

async def _scenario(size: int, num: int, rel: int) -> int:
    pool = TaskPool(pool_size=size)
    gates = []
    live = 0
    peak = 0
    async def worker():
        nonlocal live, peak
        live += 1
        peak = max(peak, live)
        g = asyncio.Event(); gates.append(g)
        try:
            await g.wait()
        finally:
            live -= 1
    pool.apply(worker, num=num)
    for _ in range(6):
        await asyncio.sleep(0)
    # release `rel` workers
    k = 0
    for g in gates:
        if k >= rel: break
        g.set(); k += 1
    for _ in range(6):
        await asyncio.sleep(0)
    pool.apply(worker, num=num)
    for _ in range(6):
        await asyncio.sleep(0)
    if peak > size: return -1
    if pool.num_running > size: return -2
    pool.cancel_all()
    for _ in range(6):
        await asyncio.sleep(0)
    return 0

def f(size: int, num: int, rel: int) -> int:
    """
    pre: 0 <= size
    pre: 0 <= num <= 4
    pre: 0 <= rel <= 4
    post: _ == 0
    """
    loop = DetLoop()
    try:
        return loop.run_until_complete(_scenario(size, num, rel))
    finally:
        loop.close()
