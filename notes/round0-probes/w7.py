from w2 import *
import inspect

def unstarted(task):
    return inspect.getcoroutinestate(task.get_coro()) == inspect.CORO_CREATED

TEMPLATE = '''
def h_{p}(size: int, x1: int, x2: int, x3: int, t: int) -> int:
    """
    pre: size >= 0 and x1 == {p} and 0 <= x2 < 12 and 0 <= x3 < 12 and t >= 0
    post: _ == 0
    """
    return _run(size, x1, x2, x3, t)
'''

def _run(size, x1, x2, x3, t):
    w = World()
    try:
        fn = w.worker_fn()
        pool = TaskPool(pool_size=size)
        pulled = [0]
        def gen():
            for j in range(3):
                pulled[0] += 1
                yield j
        groups = []
        gather = None
        excluded = False
        def act(x):
            nonlocal gather
            if x == 0: groups.append(pool.apply(fn, num=2))
            elif x == 1: groups.append(pool.map(fn, gen(), num_concurrent=2))
            elif x == 2 or x == 3:
                i = x - 2
                if i < len(w.gates) and not w.gates[i].done(): w.gates[i].set_result(None)
            elif x == 4 or x == 5:
                i = x - 4
                t_ = pool._tasks_running.get(i)
                if t_ is not None and unstarted(t_): raise KeyError("T1")
                try: pool.cancel(i)
                except PoolException: pass
            elif x == 6:
                if groups:
                    for i in pool.get_group_ids(groups[0]):
                        t_ = pool._tasks_running.get(i)
                        if t_ is not None and unstarted(t_): raise KeyError("T1")
                    pool.cancel_group(groups.pop(0))
            elif x == 7:
                for t_ in pool._tasks_running.values():
                    if unstarted(t_): raise KeyError("T1")
                groups.clear(); pool.cancel_all()
            elif x == 8:
                asyncio.ensure_future(pool.flush(return_exceptions=True), loop=w.loop)
            elif x == 9: pool.lock()
            elif x == 10: pool.unlock()
            else: pass
        try:
            act(x1); w.ticks(t)
            if w.peak > size: return 1
            act(x2); w.settle()
            if w.peak > size: return 1
            act(x3); w.settle()
            if w.peak > size: return 1
            if pool.num_running > size: return 2
        except KeyError:
            return 0
        except PoolException:
            return 0
        return 0
    finally:
        w.close()

for _p in range(12):
    exec(TEMPLATE.format(p=_p))
