from w2 import *
from asyncio_taskpool.control.session import ControlSession
from asyncio_taskpool.queue_context import Queue

class StubServer:
    client_class_name = "StubClient"
    def __init__(self, pool): self.pool = pool; self.serving = True
    def is_serving(self): return self.serving

def drive(w, coro):
    t = asyncio.ensure_future(coro, loop=w.loop)
    w.settle()
    return t

def c17_stop(n: int, m: int) -> int:
    """
    pre: 0 <= m <= 3
    post: _ == 0
    """
    w = World()
    try:
        fa = w.worker_fn()
        A = SimpleTaskPool(fa); B = SimpleTaskPool(fa)
        A.start(m); w.settle(); B.start(m); w.settle()
        s = ControlSession(StubServer(A), None, None)
        t = drive(w, s._exec_method_and_respond(SimpleTaskPool.stop, num=n))
        if not t.done() or t.exception(): return 1
        reply = s._response_buffer.getvalue()
        direct = B.stop(n); w.settle()
        if reply != str(direct): return 2
        for i in range(m):
            if w.outcome.get(i) != w.outcome.get(m + i): return 3
        return 0
    finally:
        w.close()

def c17_cancel(i: int, j: int) -> int:
    """
    post: _ == 0
    """
    w = World()
    try:
        fa = w.worker_fn()
        A = TaskPool(); B = TaskPool()
        A.apply(fa, num=2); w.settle(); B.apply(fa, num=2); w.settle()
        s = ControlSession(StubServer(A), None, None)
        t = drive(w, s._exec_method_and_respond(TaskPool.cancel, task_ids=[i, j], msg=None))
        if not t.done() or t.exception(): return 1
        reply = s._response_buffer.getvalue()
        try:
            r = B.cancel(i, j); exp = "ok" if r is None else str(r)
        except Exception as e:
            exp = str(e)
        w.settle()
        if reply.replace("TaskPool-0", "P").replace("TaskPool-1", "P") != exp.replace("TaskPool-0", "P").replace("TaskPool-1", "P"): return 2
        for k in range(2):
            if w.outcome.get(k) != w.outcome.get(2 + k): return 3
        return 0
    finally:
        w.close()

def c20(o1: int, o2: int, o3: int, o4: int) -> int:
    """
    pre: 0 <= o1 <= 4 and 0 <= o2 <= 4 and 0 <= o3 <= 4 and 0 <= o4 <= 4
    post: _ == 0
    """
    w = World()
    try:
        q = Queue()
        puts = 0; exited = [0]; bodies = []; cons = []
        async def consumer():
            async with q as item:
                f = w.loop.create_future(); bodies.append(f)
                try:
                    await f
                finally:
                    exited[0] += 1
        joiner = None
        for o in (o1, o2, o3, o4):
            if o == 0:
                q.put_nowait(puts); puts += 1
            elif o == 1:
                cons.append(asyncio.ensure_future(consumer(), loop=w.loop))
            elif o == 2:
                for f in bodies:
                    if not f.done(): f.set_result(None); break
            elif o == 3:
                for f in bodies:
                    if not f.done(): f.set_exception(ValueError("boom")); break
            else:
                for c in cons:
                    if not c.done(): c.cancel(); break
            w.settle()
            j = asyncio.ensure_future(q.join(), loop=w.loop); w.settle()
            done = j.done()
            if not done: j.cancel(); w.settle()
            if done != (exited[0] == puts): return 1
        return 0
    finally:
        w.close()
