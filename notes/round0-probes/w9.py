from w2 import *
from argparse import ArgumentError, Namespace
from asyncio_taskpool.control.session import ControlSession
from asyncio_taskpool.exceptions import HelpRequested, ParserError

class StubServer:
    client_class_name = "StubClient"
    def __init__(self, pool): self.pool = pool
    def is_serving(self): return True

class Reader:
    def __init__(self, lines): self.lines = list(lines)
    async def readline(self):
        return self.lines.pop(0) if self.lines else b""
class Writer:
    def __init__(self): self.out = []
    def write(self, b): self.out.append(b)
    async def drain(self): pass

class StubParser:
    def __init__(self, session, plan):
        self.s = session; self.plan = plan; self.i = 0
    def parse_args(self, tokens):
        kind, n = self.plan[self.i]; self.i += 1
        if kind == 0:
            return Namespace(command=TaskPool.num_running)
        if kind == 1:
            self.s._response_buffer.write("h" * n); raise HelpRequested
        if kind == 2:
            self.s._response_buffer.write("e" * n); raise ParserError
        if kind == 3:
            raise ArgumentError(None, "a" * n)
        return Namespace(command=TaskPool.lock)

def c18(k1: int, n1: int, k2: int, n2: int) -> int:
    """
    pre: 0 <= k1 <= 4 and 0 <= k2 <= 4 and 0 <= n1 <= 3 and 0 <= n2 <= 3
    post: _ == 0
    """
    w = World()
    try:
        pool = TaskPool(name="p")
        rd = Reader([b"one\n", b"two\n"]); wr = Writer()
        s = ControlSession(StubServer(pool), rd, wr)
        plan = [(k1, n1), (k2, n2)]
        s._parser = StubParser(s, plan)
        t = asyncio.ensure_future(s.listen(), loop=w.loop); w.settle()
        if not t.done() or t.exception() is not None: return 1
        if len(wr.out) != 2: return 2
        for (k, n), got in zip(plan, wr.out):
            exp = {0: "0", 1: "h" * n, 2: "e" * n, 3: "a" * n, 4: "ok"}[k] + "\n"
            if got != exp.encode(): return 3
        return 0
    finally:
        w.close()
