import asyncio, logging, inspect, threading, warnings
from asyncio import events, base_events
from asyncio_taskpool import TaskPool, SimpleTaskPool
from asyncio_taskpool.exceptions import *
logging.disable(logging.CRITICAL)
warnings.simplefilter("ignore")

class _NullSelector:
    def select(self, timeout=None):
        return []
    def close(self): pass

class DetLoop(base_events.BaseEventLoop):
    def __init__(self):
        super().__init__()
        self._selector = _NullSelector()
    def time(self): return 0.0
    def _process_events(self, event_list): pass
    def _write_to_self(self): pass

class World:
    def __init__(self):
        self.loop = DetLoop()
        self.loop.set_exception_handler(lambda l, c: None)
        events._set_running_loop(self.loop)
        self.loop._thread_id = threading.get_ident()
        self.gates = []; self.live = 0; self.peak = 0; self.started = []; self.outcome = {}
        self.ends = []; self.cancels = []
    def close(self):
        events._set_running_loop(None)
        self.loop._thread_id = None
        self.loop._ready.clear()
        self.loop.close()
    def settle(self, limit=300):
        n = 0
        while self.loop._ready:
            self.loop._run_once(); n += 1
            if n > limit: raise RuntimeError("no quiescence")
        return n
    def ticks(self, t):
        i = 0
        while i < t and self.loop._ready:
            self.loop._run_once(); i += 1
    def worker_fn(self):
        w = self
        async def worker(*a, **k):
            wid = len(w.gates)
            fut = w.loop.create_future(); w.gates.append(fut)
            w.started.append((wid, a, k))
            w.live += 1
            if w.live > w.peak: w.peak = w.live
            try:
                await fut
                w.outcome[wid] = "ok"
            except asyncio.CancelledError:
                w.outcome[wid] = "cancelled"
                raise
            finally:
                w.live -= 1
        return worker

def run(size: int, o1: int, a1: int, o2: int, a2: int, o3: int, a3: int) -> int:
    """
    pre: 0 <= size <= 3
    pre: 0 <= o1 <= 3 and 0 <= o2 <= 3 and 0 <= o3 <= 3
    pre: 0 <= a1 <= 3 and 0 <= a2 <= 3 and 0 <= a3 <= 3
    post: _ == 0
    """
    w = World()
    try:
        pool = TaskPool(pool_size=size)
        fn = w.worker_fn()
        created = 0
        for (o, a) in ((o1,a1),(o2,a2),(o3,a3)):
            if o == 0:
                pool.apply(fn, num=a, end_callback=w.ends.append, cancel_callback=w.cancels.append); created += a
            elif o == 1:
                if a < len(w.gates) and not w.gates[a].done():
                    w.gates[a].set_result(None)
            elif o == 2:
                try: pool.cancel(a)
                except PoolException: pass
            else:
                w.ticks(a)
        # finish everything
        w.settle()
        for _ in range(8):
            for g in w.gates:
                if not g.done(): g.set_result(None)
            if not w.settle(): break
        if w.live != 0: return 1
        if pool.num_running != 0: return 2
        if len(w.ends) != len(w.gates): return 3
        # capacity probe
        before = len(w.gates)
        pool.apply(fn, num=size + 1)
        w.settle()
        if len(w.gates) - before != size: return 4
        return 0
    finally:
        w.close()
