def _install():
    import crosshair.core as core
    from crosshair.core import NoTracing
    from crosshair.libimpl.builtinslib import SymbolicInt
    _orig = core._PATCH_REGISTRATIONS[format]
    def _format(obj, format_spec=""):
        with NoTracing():
            t = type(obj)
            symint = isinstance(obj, SymbolicInt)
            plain_user = (not t.__module__.startswith("crosshair")) and t not in (list, dict, set, tuple, frozenset) and t.__format__ is object.__format__
        if symint:
            return "<symbolic-int>"
        if format_spec == "" and plain_user:
            return str(obj)
        return _orig(obj, format_spec)
    core._PATCH_REGISTRATIONS[format] = _format
_install()
