import logging
from typing import Dict, List
from asyncio_taskpool import TaskPool
from asyncio_taskpool.pool import BaseTaskPool
from asyncio_taskpool.exceptions import *
logging.disable(logging.CRITICAL)

class FT:
    """fake task"""
    def __init__(self, tag: int) -> None:
        self.tag = tag
        self.cancels = 0
    def cancel(self, msg=None) -> bool:
        self.cancels += 1
        return True

def cancel_all_or_nothing(running: Dict[int, FT], cancelled: Dict[int, FT], ended: Dict[int, FT], ids: List[int]) -> int:
    """
    pre: len(running) <= 2 and len(cancelled) <= 1 and len(ended) <= 1 and len(ids) <= 2
    pre: all(k not in cancelled and k not in ended for k in running)
    pre: all(k not in ended for k in cancelled)
    pre: all(t.cancels == 0 and t.tag == k for k, t in running.items())
    pre: all(t.cancels == 0 and t.tag == k for k, t in cancelled.items())
    pre: all(t.cancels == 0 and t.tag == k for k, t in ended.items())
    post: _ == 0
    """
    pool = TaskPool()
    pool._tasks_running = running
    pool._tasks_cancelled = cancelled
    pool._tasks_ended = ended
    exc = None
    try:
        pool.cancel(*ids)
    except AlreadyCancelled:
        exc = "c"
    except AlreadyEnded:
        exc = "e"
    except InvalidTaskID:
        exc = "i"
    first_bad = None
    for i in ids:
        if i in running: continue
        first_bad = "c" if i in cancelled else ("e" if i in ended else "i")
        break
    if first_bad != exc: return 1
    for k, t in running.items():
        want = 0 if first_bad else sum(1 for i in ids if i == k)
        if t.cancels != want: return 2
    for t in list(cancelled.values()) + list(ended.values()):
        if t.cancels: return 3
    return 0
