import asyncio, logging, io, json
from asyncio_taskpool import TaskPool, SimpleTaskPool
from asyncio_taskpool.control.session import ControlSession
from asyncio_taskpool.control.parser import ControlParser
logging.disable(logging.CRITICAL)

class FakeServer:
    client_class_name="X"
    def __init__(self,pool): self.pool=pool; self.serving=True
    def is_serving(self): return self.serving
class W:
    def __init__(self): self.out=[]
    def write(self,b): self.out.append(b)
    async def drain(self): pass
class R:
    def __init__(self,lines): self.lines=list(lines)
    async def readline(self):
        return self.lines.pop(0) if self.lines else b""

async def w(): pass
async def main():
    for pool in (TaskPool(), SimpleTaskPool(w)):
        wr=W(); rd=R([json.dumps({"terminal_width":80}).encode()+b"\n", b"num-running\n", b"pool-size -h\n", b"bogus\n", b"is-locked\n"])
        s=ControlSession(FakeServer(pool), rd, wr)
        try:
            await s.client_handshake()
            print(type(pool).__name__, "handshake ok", wr.out)
            await s.listen()
            for o in wr.out: print(repr(o[:200]))
        except Exception as e:
            print(type(pool).__name__, "handshake EXC", type(e).__name__, e)
asyncio.run(main())
