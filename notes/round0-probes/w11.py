from w2 import *

def c08(size: int, x1: int, x2: int, re: int, r1: int, r2: int, r3: int) -> int:
    """
    pre: 1 <= size and 0 <= x1 <= 3 and 0 <= x2 <= 3 and 0 <= re <= 1
    pre: 0 <= r1 <= 3 and 0 <= r2 <= 3 and 0 <= r3 <= 3
    post: _ == 0
    """
    w = World()
    try:
        fn = w.worker_fn()
        pool = TaskPool(pool_size=size)
        pulled = [0]; L = 3
        def gen():
            for j in range(L):
                pulled[0] += 1
                yield j
        groups = []
        mapped = [False]
        def act(x):
            if x == 0: groups.append(pool.apply(fn, num=2))
            elif x == 1: groups.append(pool.map(fn, gen(), num_concurrent=1)); mapped[0] = True
            elif x == 2:
                if groups:
                    g = groups.pop()
                    if g.startswith("map"): mapped[0] = None
                    pool.cancel_group(g)
            else: w.settle()
        act(x1); act(x2)
        g = asyncio.ensure_future(pool.gather_and_close(return_exceptions=(re == 1)), loop=w.loop)
        u = asyncio.ensure_future(pool.until_closed(), loop=w.loop)
        w.settle()
        for r in (r1, r2, r3, 0, 1, 2, 3, 0, 1, 2, 3):
            if g.done(): break
            if u.done(): return 5
            if r < len(w.gates) and not w.gates[r].done(): w.gates[r].set_result(None)
            w.settle()
        if not g.done():
            for f in w.gates:
                if not f.done(): f.set_result(None)
            w.settle()
        if not g.done(): return 1
        if g.exception() is not None: return 2
        if w.live != 0: return 3
        if mapped[0] is True and pulled[0] != L: return 4
        w.settle()
        if not u.done(): return 6
        try:
            pool.apply(fn); return 7
        except PoolIsClosed: pass
        return 0
    finally:
        w.close()
