"""Exploratory concrete scan (NOT the technique): enumerate short programs to learn which
oracle clauses fail on the unchanged tree, so the design anticipates findings/false alarms."""
import asyncio, logging, inspect, threading, warnings, itertools, sys, collections
from asyncio import events, base_events
from asyncio_taskpool import TaskPool, SimpleTaskPool
from asyncio_taskpool.pool import BaseTaskPool
from asyncio_taskpool.exceptions import *
logging.disable(logging.CRITICAL); warnings.simplefilter("ignore")

class _NullSelector:
    def select(self, timeout=None): return []
    def close(self): pass
class DetLoop(base_events.BaseEventLoop):
    def __init__(self):
        super().__init__(); self._selector = _NullSelector()
    def time(self): return 0.0
    def _process_events(self, e): pass
    def _write_to_self(self): pass

def unstarted(task): return inspect.getcoroutinestate(task.get_coro()) == inspect.CORO_CREATED

class Excluded(Exception): pass

class World:
    def __init__(self, size, open_triggers=()):
        BaseTaskPool._pools.clear()
        self.loop = DetLoop(); self.loop.set_exception_handler(lambda l, c: None)
        events._set_running_loop(self.loop); self.loop._thread_id = threading.get_ident()
        self.open = set(open_triggers)
        self.size = size
        self.pool = TaskPool(pool_size=size)
        self.W = []            # per worker dict
        self.live = 0; self.peak = 0
        self.cb = []           # callback records
        self.slow = {}         # (kind,id) -> future
        self.incb = set()
        self.err = 0
        self.gens = []
    def fail(self, code):
        if not self.err: self.err = code
    def close(self):
        events._set_running_loop(None); self.loop._thread_id = None
        self.loop._ready.clear(); self.loop.close()
    def once(self):
        self.loop._run_once(); self.monitor()
    def settle(self, limit=400):
        n = 0
        while self.loop._ready:
            self.once(); n += 1
            if n > limit: raise RuntimeError("no quiescence")
        return n
    def ticks(self, t):
        i = 0
        while i < t and self.loop._ready: self.once(); i += 1
    def monitor(self):
        p = self.pool
        if p.num_running > self.size: self.fail(101)
        if p.num_running + p.num_cancelled + p.num_ended != p._num_started - self.forgotten: self.fail(301)
    forgotten = 0
    def worker(self, req):
        w = self
        async def fn(*a, **k):
            rec = {"req": req, "args": a, "kw": k, "state": "run", "cancels": 0, "name": asyncio.current_task().get_name()}
            rec["id"] = int(rec["name"].rsplit("-", 1)[1])
            fut = w.loop.create_future(); rec["gate"] = fut; w.W.append(rec)
            w.live += 1; w.peak = max(w.peak, w.live)
            if w.live > w.size: w.fail(100)
            try:
                await fut; rec["state"] = "ok"
            except asyncio.CancelledError:
                rec["cancels"] += 1; rec["state"] = "cancelled"; raise
            except Exception:
                rec["state"] = "failed"; raise
            finally:
                w.live -= 1
        fn.__name__ = "fn"
        return fn
    def callbacks(self, kind):
        w = self
        def rec(k, i):
            p = w.pool
            w.cb.append((k, i, i in p._tasks_running, i in p._tasks_cancelled, i in p._tasks_ended))
        if kind == 0: return None, None
        if kind == 1:
            return (lambda i: rec("end", i)), (lambda i: rec("cancel", i))
        async def ecb(i):
            rec("end", i)
            if kind == 3:
                f = w.loop.create_future(); w.slow[("end", i)] = f; w.incb.add(i)
                try: await f
                finally: w.incb.discard(i)
            rec("end-done", i)
        async def ccb(i):
            rec("cancel", i)
            if kind == 3:
                f = w.loop.create_future(); w.slow[("cancel", i)] = f; w.incb.add(i)
                try: await f
                finally: w.incb.discard(i)
            rec("cancel-done", i)
        return ecb, ccb
    def t1_guard(self, ids):
        for i in ids:
            t = self.pool._tasks_running.get(i)
            if t is not None and unstarted(t):
                if "T1" in self.open: raise Excluded("T1")
    def drain(self):
        for _ in range(20):
            for r in self.W:
                if not r["gate"].done(): r["gate"].set_result(None)
            for f in self.slow.values():
                if not f.done(): f.set_result(None)
            if not self.settle(): break

def c03_prog(prog, cbkind, size, t_early, open_triggers):
    w = World(size, open_triggers)
    p = w.pool
    try:
        ecb, ccb = w.callbacks(cbkind)
        try:
            for step, (op, a) in enumerate(prog):
                if op == "apply":
                    p.apply(w.worker(0), num=a, end_callback=ecb, cancel_callback=ccb)
                elif op == "rel":
                    if a < len(w.W) and not w.W[a]["gate"].done(): w.W[a]["gate"].set_result(None)
                elif op == "fail":
                    if a < len(w.W) and not w.W[a]["gate"].done(): w.W[a]["gate"].set_exception(ValueError("boom"))
                elif op == "cancel":
                    w.t1_guard([a])
                    try: p.cancel(a)
                    except PoolException: pass
                elif op == "cancel2":
                    w.t1_guard([a])
                    try: p.cancel(a, a)
                    except PoolException: pass
                elif op == "call":
                    w.t1_guard(list(p._tasks_running))
                    p.cancel_all()
                elif op == "cbrel":
                    for k, f in w.slow.items():
                        if k[1] == a and not f.done(): f.set_result(None); break
                if step == 0: w.ticks(t_early)
                else: w.settle()
                w.monitor()
        except Excluded:
            return 0
        w.drain()
        if w.err: return w.err
        # callbacks exactness
        if cbkind:
            created = p._num_started
            for i in range(created):
                ends = [c for c in w.cb if c[0] == "end" and c[1] == i]
                cans = [c for c in w.cb if c[0] == "cancel" and c[1] == i]
                recs = [r for r in w.W if r["id"] == i]
                if len(ends) != 1: return 310
                if not ends[0][4]: return 311       # counted as ended at end cb
                if recs:
                    was_cancelled = recs[0]["state"] == "cancelled"
                    if recs[0]["cancels"] > 1: return 315
                else:
                    was_cancelled = True   # never started: only possible if cancelled
                if len(cans) != (1 if was_cancelled else 0): return 312
                if cans and not cans[0][3]: return 313
                if cans and w.cb.index(cans[0]) > w.cb.index(ends[0]): return 314
                if cbkind >= 2:
                    if not any(c[0] == "end-done" and c[1] == i for c in w.cb): return 316
                    if cans and not any(c[0] == "cancel-done" and c[1] == i for c in w.cb): return 317
        if p.num_running or p.num_cancelled: return 320
        return 0
    finally:
        w.close()

if __name__ == "__main__":
    ops = [("apply", 1), ("apply", 2), ("rel", 0), ("rel", 1), ("fail", 0), ("cancel", 0), ("cancel", 1), ("cancel2", 0), ("call", 0), ("cbrel", 0), ("cbrel", 1)]
    res = collections.Counter(); ex = {}
    n = 0
    for K in (2, 3, 4):
        for prog in itertools.product(ops, repeat=K):
            if prog[0][0] != "apply": continue
            for cbkind in (1, 2, 3):
                for size in (1, 2, 5):
                    for t in (0, 1, 2, 99):
                        for opn in ((), ("T1",)):
                            n += 1
                            try:
                                r = c03_prog(prog, cbkind, size, t, opn)
                            except Exception as e:
                                r = "EXC:" + type(e).__name__ + ":" + str(e)[:40]
                            key = (r, bool(opn))
                            res[key] += 1
                            if key not in ex: ex[key] = (prog, cbkind, size, t)
    print(n)
    for k, v in sorted(res.items(), key=str): print(k, v, ex[k])
