from w2 import *

def c13(o1: int, a1: int, o2: int, a2: int, o3: int, a3: int, o4: int, a4: int) -> int:
    """
    pre: 0 <= o1 <= 4 and 0 <= o2 <= 4 and 0 <= o3 <= 4 and 0 <= o4 <= 4
    pre: 0 <= a1 <= 1 and 0 <= a2 <= 1 and 0 <= a3 <= 1 and 0 <= a4 <= 1
    post: _ == 0
    """
    w = World()
    try:
        fn = w.worker_fn()
        pool = TaskPool(pool_size=2)
        slow = {}
        incb = set()
        async def ccb(i):
            f = w.loop.create_future(); slow[i] = f; incb.add(i)
            try: await f
            finally: incb.discard(i)
        pool.apply(fn, num=2, cancel_callback=ccb, end_callback=w.ends.append); w.settle()
        flushes = []
        for (o, a) in ((o1,a1),(o2,a2),(o3,a3),(o4,a4)):
            if o == 0:
                try: pool.cancel(a)
                except PoolException: pass
            elif o == 1:
                if a in slow and not slow[a].done(): slow[a].set_result(None)
            elif o == 2:
                flushes.append(asyncio.ensure_future(pool.flush(return_exceptions=(a == 1)), loop=w.loop))
            elif o == 3:
                if not w.gates[a].done(): w.gates[a].set_result(None)
            else:
                pass
            w.settle()
        # finish everything
        for _ in range(6):
            for g in w.gates:
                if not g.done(): g.set_result(None)
            for f in slow.values():
                if not f.done(): f.set_result(None)
            if not w.settle(): break
        for f in flushes:
            if not f.done(): return 5
            if f.exception() is not None: return 6
        if sorted(w.ends) != [0, 1]: return 1
        before = len(w.gates)
        pool.apply(fn, num=3); w.settle()
        if len(w.gates) - before != 2: return 4
        return 0
    finally:
        w.close()
