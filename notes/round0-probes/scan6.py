"""Exploratory scan #6 (NOT the technique): C01 is_full clause, C10/C11 id/group oracles, C14, C09."""
import itertools, collections, sys, re
from scan import *
sys.unraisablehook = lambda *a: None

def run(prog, size, t_early, cbkind):
    w = World(size, ()); p = w.pool
    ecb, ccb = w.callbacks(cbkind)
    reqs = []
    names_seen = []
    def idle_check():
        if w.incb: return
        if any((not t.done()) for t in list(p._tasks_cancelled.values()) + list(p._tasks_ended.values())): return
        if p.is_full != (p.num_running == size): w.fail(110)
        # groups partition
        allids = set()
        for r in reqs:
            if r["cancelled"]: continue
            ids = p.get_group_ids(r["group"])
            seen = {x["id"] for x in w.W if x["req"] == r["idx"]}
            unst = {i for i, t in p._tasks_running.items() if unstarted(t)}
            if not seen <= ids: w.fail(1001)
            if not (ids - seen) <= unst: w.fail(1002)
            if allids & ids: w.fail(1003)
            allids |= ids
        # ids dense
        startedids = [x["id"] for x in w.W]
        if sorted(startedids) != startedids: w.fail(1101)
        if len(set(startedids)) != len(startedids): w.fail(1102)
        if startedids and max(startedids) >= p._num_started: w.fail(1103)
    try:
        for step, (op, a) in enumerate(prog):
            if op == "apply":
                live = {r["group"] for r in reqs if not r["cancelled"]}
                r = {"idx": len(reqs), "cancelled": False}
                fn = w.worker(len(reqs))
                r["group"] = p.apply(fn, num=a, end_callback=ecb, cancel_callback=ccb)
                if not re.fullmatch(r"apply-fn-group-\d+", r["group"]): w.fail(1004)
                if r["group"] in live: w.fail(1005)
                reqs.append(r)
            elif op == "map":
                live = {r["group"] for r in reqs if not r["cancelled"]}
                r = {"idx": len(reqs), "cancelled": False}
                r["group"] = p.map(w.worker(len(reqs)), iter(range(3)), num_concurrent=a)
                if not re.fullmatch(r"map-fn-group-\d+", r["group"]): w.fail(1004)
                if r["group"] in live: w.fail(1005)
                reqs.append(r)
            elif op == "rel":
                if a < len(w.W) and not w.W[a]["gate"].done(): w.W[a]["gate"].set_result(None)
            elif op == "cancel":
                try: p.cancel(a)
                except PoolException: pass
            elif op == "cgroup":
                live = [r for r in reqs if not r["cancelled"]]
                if a < len(live): p.cancel_group(live[a]["group"]); live[a]["cancelled"] = True
            elif op == "call":
                p.cancel_all()
                for r in reqs: r["cancelled"] = True
            elif op == "flush":
                asyncio.ensure_future(p.flush(return_exceptions=True), loop=w.loop)
            elif op == "cbrel":
                for k, f in w.slow.items():
                    if not f.done(): f.set_result(None); break
            if step == 0: w.ticks(t_early)
            w.settle(); idle_check()
            if w.err: return w.err
        return 0
    finally:
        w.close()

if __name__ == "__main__":
    ops = [("apply", 1), ("apply", 2), ("map", 1), ("map", 2), ("rel", 0), ("rel", 1), ("cancel", 0), ("cancel", 1), ("cgroup", 0), ("cgroup", 1), ("call", 0), ("flush", 0), ("cbrel", 0)]
    K = int(sys.argv[1])
    res = collections.Counter(); ex = {}
    for prog in itertools.product(ops, repeat=K):
        if prog[0][0] not in ("apply", "map"): continue
        for size in (0, 1, 2, 3, float("inf")):
            for t in (0, 1, 2, 99):
                for cbkind in (1, 3):
                    cfg = (prog, size, t, cbkind)
                    try: r = run(*cfg)
                    except Exception as e: r = "EXC:" + type(e).__name__ + ":" + str(e)[:60]
                    res[r] += 1; ex.setdefault(r, cfg)
    for k, v in sorted(res.items(), key=str): print(k, v, ex[k])
