import w2
from w2 import *

class FastWorld(World):
    def _once(self):
        ready = self.loop._ready
        n = len(ready)
        for _ in range(n):
            h = ready.popleft()
            if not h._cancelled:
                h._run()
    def settle(self, limit=300):
        n = 0
        while self.loop._ready:
            self._once(); n += 1
            if n > limit: raise RuntimeError("no quiescence")
        return n
    def ticks(self, t):
        i = 0
        while i < t and self.loop._ready:
            self._once(); i += 1

def mk(cls):
    def run(size: int, a1: int, a2: int, a3: int) -> int:
        w = cls()
        try:
            pool = TaskPool(pool_size=size)
            fn = w.worker_fn()
            pool.apply(fn, num=a1); w.settle()
            if a2 < len(w.gates) and not w.gates[a2].done(): w.gates[a2].set_result(None)
            w.settle()
            w.ticks(a3)
            pool.apply(fn, num=2); w.settle()
            if w.peak > size: return 1
            return 0
        finally:
            w.close()
    return run
_slow = mk(World); _fast = mk(FastWorld)

def slow(size: int, a1: int, a2: int, a3: int) -> int:
    """
    pre: 0 <= size and 0 <= a1 <= 3 and 0 <= a2 <= 3 and 0 <= a3
    post: _ == 0
    """
    return _slow(size, a1, a2, a3)

def fast(size: int, a1: int, a2: int, a3: int) -> int:
    """
    pre: 0 <= size and 0 <= a1 <= 3 and 0 <= a2 <= 3 and 0 <= a3
    post: _ == 0
    """
    return _fast(size, a1, a2, a3)
