import io, logging
from argparse import ArgumentError
from asyncio_taskpool import TaskPool
from asyncio_taskpool.control.parser import ControlParser
from asyncio_taskpool.exceptions import HelpRequested, ParserError
logging.disable(logging.CRITICAL)

class Toy:
    def lock(self) -> None:
        """Lock."""
    def stop(self, num: int) -> None:
        """Stop."""
    @property
    def n(self) -> int:
        """N."""
        return 1

def mk():
    buf = io.StringIO()
    p = ControlParser(stream=buf, terminal_width=80, prog="", usage="[-h] [command] ...")
    p.add_subparsers(title="Commands", metavar="(cmd)")
    p.add_class_commands(Toy)
    return p, buf

def any_line(line: str) -> bool:
    """
    pre: len(line) <= 2
    post: _
    """
    p, buf = mk()
    try:
        ns = vars(p.parse_args(line.split(" ")))
        ok = ns.get("command") is not None
    except ArgumentError:
        ok = True
    except (HelpRequested, ParserError):
        ok = len(buf.getvalue()) > 0
    return ok

def stop_n(n: int) -> bool:
    """
    pre: 0 <= n
    post: _
    """
    p, buf = mk()
    ns = vars(p.parse_args(("stop " + str(n)).split(" ")))
    return ns["num"] == n
