def look(i: int) -> int:
    """
    post: _ == (1 if (i == 0 or i == 2 or i == 5) else 0)
    """
    d = {0: "a", 2: "b", 5: "c"}
    try:
        d[i]
        return 1
    except KeyError:
        if d.get(i):
            return 2
        if i in d:
            return 3
        return 0
