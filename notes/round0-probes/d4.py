import asyncio, logging
from asyncio_taskpool import TaskPool, SimpleTaskPool
from asyncio_taskpool.exceptions import *
logging.disable(logging.CRITICAL)
async def ticks(n=8):
    for _ in range(n): await asyncio.sleep(0)
async def w():
    await asyncio.Event().wait()
async def t1():
    p=TaskPool(); p.apply(w,num=1); await asyncio.sleep(0); 
    print("running", p.num_running)
    p.cancel_all()
    try:
        await asyncio.wait_for(p.gather_and_close(), 1); print("C08/T1 gather ok")
    except BaseException as e: print("C08/T1 gather raised", type(e).__name__)
async def t2():
    # cancel(id) twice on zombie
    p=TaskPool(); p.apply(w,num=1); await asyncio.sleep(0); p.cancel(0); await ticks()
    try: p.cancel(0); print("C06/T1 second cancel: no error")
    except Exception as e: print("C06/T1 second cancel raised", type(e).__name__)
async def t3():
    # group name free and reuse
    p=TaskPool(); g=p.apply(w,num=2,group_name="g"); await ticks(); p.cancel_group("g"); await ticks()
    try: print(p.get_group_ids("g"))
    except Exception as e: print("after cancel_group get_group_ids raises", type(e).__name__)
    p.apply(w,num=1,group_name="g"); await ticks(); print("reuse ok ids", p.get_group_ids("g"), "counts", p.num_running, p.num_cancelled, p.num_ended)
    p.cancel_all(); await ticks()
for t in (t1,t2,t3):
    asyncio.run(t())
