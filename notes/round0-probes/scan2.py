"""Exploratory concrete scan #2 (NOT the technique): generic programs, many invariants, trigger exclusions."""
import itertools, collections, sys, random
from scan import *

def run(prog, size, t_early, cbkind, opn):
    w = World(size, opn); p = w.pool
    reqs = []   # dict(kind, group, num/L, gen, cancelled_at)
    flushes = []; gather = [None]
    ecb, ccb = w.callbacks(cbkind)
    endcount = collections.Counter()
    def end_cb(i):
        endcount[i] += 1
        if ecb: return ecb(i)
    if cbkind >= 2:
        async def end_cb(i):
            endcount[i] += 1
            await ecb(i)
    def mkgen(req):
        def gen():
            for j in range(req["L"]):
                req["pulled"] += 1
                if req["cancel_seen"]: w.fail(701)    # iterable advanced after cancel
                yield j
        return gen()
    def pending_apply():
        for r in reqs:
            if r["kind"] == "apply" and not r["cancelled"]:
                created = len(p._task_groups.get(r["group"], ())) if r["group"] in p._task_groups else 0
                if created < r["num"]: return True
        return False
    try:
        try:
            for step, (op, a) in enumerate(prog):
                if op == "apply":
                    r = {"kind": "apply", "num": a, "cancelled": False, "cancel_seen": False, "idx": len(reqs)}
                    r["group"] = p.apply(w.worker(len(reqs)), num=a, end_callback=end_cb, cancel_callback=ccb); reqs.append(r)
                elif op == "map":
                    r = {"kind": "map", "L": 3, "conc": a, "pulled": 0, "cancelled": False, "cancel_seen": False, "idx": len(reqs)}
                    r["group"] = p.map(w.worker(len(reqs)), mkgen(r), num_concurrent=a, end_callback=end_cb, cancel_callback=ccb); reqs.append(r)
                elif op == "rel":
                    if a < len(w.W) and not w.W[a]["gate"].done(): w.W[a]["gate"].set_result(None)
                elif op == "cancel":
                    w.t1_guard([a])
                    try: p.cancel(a)
                    except PoolException: pass
                elif op == "cgroup":
                    live = [r for r in reqs if not r["cancelled"]]
                    if a < len(live):
                        r = live[a]
                        w.t1_guard(list(p.get_group_ids(r["group"])))
                        p.cancel_group(r["group"]); r["cancelled"] = True; r["cancel_seen"] = True
                        r["started_at_cancel"] = sum(1 for x in w.W if x["req"] == r["idx"])
                elif op == "call":
                    w.t1_guard(list(p._tasks_running))
                    p.cancel_all()
                    for r in reqs:
                        if not r["cancelled"]:
                            r["cancelled"] = True; r["cancel_seen"] = True
                            r["started_at_cancel"] = sum(1 for x in w.W if x["req"] == r["idx"])
                elif op == "flush":
                    before_e = set(p._tasks_ended); before_c = set(p._tasks_cancelled)
                    f = asyncio.ensure_future(p.flush(return_exceptions=True), loop=w.loop)
                    def fin(fut, be=before_e, bc=before_c):
                        pass
                    flushes.append(f)
                elif op == "cbrel":
                    for k, f in w.slow.items():
                        if k[1] == a and not f.done(): f.set_result(None); break
                elif op == "lock":
                    if "T2" in w.open and pending_apply(): raise Excluded("T2")
                    p.lock()
                elif op == "unlock": p.unlock()
                elif op == "gather":
                    if gather[0] is None:
                        if "T2" in w.open and pending_apply(): raise Excluded("T2")
                        if "T3" in w.open and any((t.cancelled() or unstarted(t)) for t in p._meta_tasks_cancelled): raise Excluded("T3")
                        gather[0] = asyncio.ensure_future(p.gather_and_close(), loop=w.loop)
                # forgotten tracking: recompute after each iteration below
                def after():
                    w.forgotten = p._num_started - (p.num_running + p.num_cancelled + p.num_ended) if (flushes or gather[0]) else 0
                if flushes or gather[0]:
                    # conservation can't be checked exactly once something may be forgotten
                    w.monitor = lambda: None
                if step == 0: w.ticks(t_early)
                else: w.settle()
                if gather[0] is not None and gather[0].done():
                    break
        except Excluded:
            return 0
        except (PoolIsLocked, PoolIsClosed):
            return 0
        # T4 guard: flush completed while a task in callbacks
        w.drain()
        if gather[0] is not None:
            for _ in range(5):
                w.drain()
            g = gather[0]
            if not g.done(): return 801
            if g.cancelled(): return 804
            if g.exception() is not None: return 802
            if w.live: return 803
        if w.err: return w.err
        for f in flushes:
            if not f.done(): return 1301
            if f.cancelled(): return 1303
            if f.exception() is not None: return 1302
        if w.live: return 201
        if p.num_running: return 202
        if p.num_cancelled: return 203
        # each created task had its end callback once
        for i in range(p._num_started):
            if endcount[i] != 1: return 204
        # requests complete
        for r in reqs:
            started = [x for x in w.W if x["req"] == r["idx"]]
            if r["cancelled"]:
                pass
            elif gather[0] is None or True:
                if r["kind"] == "apply" and len(started) != r["num"] and not p._locked: return 401
                if r["kind"] == "map":
                    if (len(started) != 3 or [x["args"][0] for x in started] != [0, 1, 2]) : return 501
        # capacity probe
        if gather[0] is None and not p._locked and size <= 4:
            before = len(w.W)
            p.apply(w.worker(99), num=size + 1); w.settle()
            if len(w.W) - before != size: return 205
        return 0
    finally:
        w.close()

sys.unraisablehook = lambda *a: None
if __name__ == "__main__":
    ops = [("apply", 2), ("map", 1), ("map", 2), ("rel", 0), ("rel", 1), ("cancel", 0), ("cancel", 1), ("cgroup", 0), ("cgroup", 1), ("call", 0), ("flush", 0), ("cbrel", 0), ("cbrel", 1), ("lock", 0), ("unlock", 0), ("gather", 0)]
    res = collections.Counter(); ex = {}
    n = 0
    K = int(sys.argv[1]) if len(sys.argv) > 1 else 3
    for prog in itertools.product(ops, repeat=K):
        if prog[0][0] not in ("apply", "map"): continue
        for cbkind in (1, 3):
            for size in (1, 2):
                for t in (0, 1, 2, 3, 99):
                    for opn in (("T1", "T2", "T3"),):
                        n += 1
                        try:
                            r = run(prog, size, t, cbkind, opn)
                        except Exception as e:
                            r = "EXC:" + type(e).__name__ + ":" + str(e)[:40]
                        key = (r, opn)
                        res[key] += 1
                        if key not in ex: ex[key] = (prog, cbkind, size, t)
    print(n)
    for k, v in sorted(res.items(), key=str): print(k, v, ex[k])
