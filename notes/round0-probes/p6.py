import io, logging
from asyncio_taskpool import TaskPool
from asyncio_taskpool.control.parser import ControlParser
from asyncio_taskpool.exceptions import HelpRequested, ParserError
logging.disable(logging.CRITICAL)

def help_for(width: int) -> bool:
    """
    pre: 11 <= width <= 40
    post: _
    """
    buf = io.StringIO()
    p = ControlParser(stream=buf, terminal_width=width, prog="", usage="[-h] [command] ...")
    p.add_subparsers(title="Commands", metavar="(A command followed by '-h' or '--help' will show command-specific help.)")
    p.add_property_command(TaskPool.num_running, "TaskPool", stream=buf, terminal_width=width)
    p.add_function_command(TaskPool.lock, stream=buf, terminal_width=width)
    try:
        p.parse_args(["num-running", "-h"])
    except HelpRequested:
        pass
    out = buf.getvalue()
    return "num-running" in out and "-h, --help" in out
