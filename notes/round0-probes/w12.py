from w2 import *
import builtins, os
try:
    from crosshair.tracers import NoTracing
except Exception:
    NoTracing = None

def log(msg):
    fd = getattr(builtins, "_verif_log_fd", None)
    if fd is None: return
    with NoTracing():
        os.write(fd, (msg + "\n").encode())

def h(size: int, a1: int) -> int:
    """
    pre: 0 <= size and 0 <= a1 <= 3
    post: _ == 0
    """
    log("entered")
    w = World()
    try:
        pool = TaskPool(pool_size=size)
        fn = w.worker_fn()
        pool.apply(fn, num=a1); w.settle()
        if w.peak > size: return 1
        log("completed live=%d" % w.live)
        return 0
    finally:
        w.close()
