import asyncio, logging
from asyncio_taskpool import TaskPool
logging.disable(logging.CRITICAL)

class DetLoop(asyncio.SelectorEventLoop):
    def time(self):
        return 0.0

async def _scenario(size: int) -> int:
    pool = TaskPool(pool_size=size)
    gate = asyncio.Event()
    live = 0
    peak = 0
    async def worker():
        nonlocal live, peak
        live += 1
        peak = max(peak, live)
        try:
            await gate.wait()
        finally:
            live -= 1
    pool.apply(worker, num=2)
    for _ in range(6):
        await asyncio.sleep(0)
    r = peak
    pool.cancel_all()
    for _ in range(6):
        await asyncio.sleep(0)
    return r

def f(size: int) -> int:
    """
    pre: 0 <= size <= 100
    post: _ <= size
    """
    loop = DetLoop()
    try:
        return loop.run_until_complete(_scenario(size))
    finally:
        loop.close()
