"""Exploratory scan #3 (NOT the technique): flush family, C13 oracles."""
import itertools, collections, sys
from scan import *
sys.unraisablehook = lambda *a: None

def run(prog, cbkind, opn, N=2):
    w = World(5, opn); p = w.pool
    ecb, ccb = w.callbacks(cbkind)
    flushes = []
    done_before = {}
    finished = set()   # ids whose callbacks all completed
    def fully_finished():
        out = set()
        for i in range(p._num_started):
            t = p._tasks_ended.get(i)
            if t is not None and t.done(): out.add(i)
        return out
    try:
        p.apply(w.worker(0), num=N, end_callback=ecb, cancel_callback=ccb); w.settle()
        def mon():
            # (a) running or mid-callback tasks are still known
            for r in w.W:
                i = r["id"]
                known = i in p._tasks_running or i in p._tasks_cancelled or i in p._tasks_ended
                if r["state"] == "run" and not known: w.fail(1310)
                if i in w.incb and not known:
                    if "T4" in w.open: raise Excluded("T4")
                    w.fail(1311)
        w.monitor = mon
        try:
            for (op, a) in prog:
                if op == "cancel":
                    try: p.cancel(a)
                    except PoolException: pass
                elif op == "rel":
                    if not w.W[a]["gate"].done(): w.W[a]["gate"].set_result(None)
                elif op == "fail":
                    if not w.W[a]["gate"].done(): w.W[a]["gate"].set_exception(ValueError("x"))
                elif op == "cbrel":
                    for k, f in w.slow.items():
                        if k[1] == a and not f.done(): f.set_result(None); break
                elif op == "flush":
                    f = asyncio.ensure_future(p.flush(return_exceptions=bool(a)), loop=w.loop)
                    f.snap = fully_finished(); f.retexc = bool(a); f.checked = False
                    flushes.append(f)
                w.settle()
                for f in flushes:
                    if f.done() and not f.checked:
                        f.checked = True
                        for i in f.snap:
                            if i in p._tasks_ended or i in p._tasks_cancelled or i in p._tasks_running: w.fail(1320)
                        if f.retexc and (f.cancelled() or f.exception() is not None): w.fail(1330)
        except Excluded:
            return 0
        w.drain()
        if w.err: return w.err
        for i in range(N):
            if sum(1 for c in w.cb if c[0] == "end" and c[1] == i) != 1: return 1340
        before = len(w.W); p.apply(w.worker(9), num=6); w.settle()
        if len(w.W) - before != 5: return 1350
        return 0
    finally:
        w.close()

if __name__ == "__main__":
    ops = [("cancel", 0), ("cancel", 1), ("rel", 0), ("rel", 1), ("fail", 0), ("cbrel", 0), ("cbrel", 1), ("flush", 0), ("flush", 1)]
    K = int(sys.argv[1])
    res = collections.Counter(); ex = {}
    for prog in itertools.product(ops, repeat=K):
        for cbkind in (1, 3):
            for opn in ((), ("T4",)):
                try: r = run(prog, cbkind, opn)
                except Exception as e: r = "EXC:" + type(e).__name__ + ":" + str(e)[:50]
                res[(r, opn)] += 1; ex.setdefault((r, opn), (prog, cbkind))
    for k, v in sorted(res.items(), key=str): print(k, v, ex[k])
