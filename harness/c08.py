"""C08 gather_and_close waits for everything, then closes for good."""
from asyncio_taskpool import TaskPool
from asyncio_taskpool.exceptions import PoolIsClosed
from engine.prog import Interp, act, parts_product, refine, select
from engine.spec import Family
from engine.world import Excluded, World, task_outcome

ID = "C08"
CLAUSES = {
    801: "gather_and_close() never returned although all work finished",
    802: "gather_and_close() raised although no task or callback raised",
    803: "gather_and_close() returned while a worker was still alive",
    804: "gather_and_close() returned before a map-style request consumed all its elements",
    805: "gather_and_close() returned before all requested invocations had happened",
    806: "until_closed() waiter released before gather_and_close() returned",
    807: "until_closed() waiter never released after close",
    808: "pool still holds tasks after close",
    809: "a spawn request after close did not raise PoolIsClosed",
    810: "gather_and_close() raised something that is not a task's own exception",
    811: "a callback was still in progress when gather_and_close() returned",
    77: "reachability twin",
}
FUNCTIONS = ["BaseTaskPool.gather_and_close", "BaseTaskPool.until_closed", "BaseTaskPool._check_start", "BaseTaskPool.lock"]

SPAWN = ("apply2", "map1", "map2", "apply3")
PRE = ("apply1", "map1", "cgroup", "call", "rel", "cancel", "selfcancel", "nop")
COMP = ("rel", "fail", "cbrel", "nop")
NOPP, NOPC = len(PRE) - 1, len(COMP) - 1


def tpl_gather(size, cb, x1, x2, a2, x3, a3, rx, c1, b1, c2, b2, c3, b3, t1, t, dord=0, _twin=False):
    w = World("c08.gather")
    code = 0
    try:
        pool = TaskPool(pool_size=size)
        it = Interp(w, pool, cbkind=cb)
        st = {"seen": False}

        def mon():
            g = it.gather[0] if it.gather else None
            if it.waiter is not None and it.waiter.done() and (g is None or not g.done()):
                w.fail(806)
            g2 = st.get("g2")
            if g2 is not None and g2.done() and not st.get("seen2"):
                # a second call that overlapped the first: it, too, returns only once everything is over and the pool is closed
                st["seen2"] = True
                if task_outcome(g2)[0] == "ok":
                    if w.live:
                        w.fail(803)
                    if w.incb:
                        w.fail(811)
                    if not pool._closed.is_set() or pool.num_running:
                        w.fail(808)
            if g is not None and g.done() and not st["seen"]:
                st["seen"] = True
                kind, exc = task_outcome(g)
                if kind == "ok":
                    if w.live:
                        w.fail(803)
                    if w.incb:
                        w.fail(811)
                    for r in it.reqs:
                        if r["cancelled"]:
                            continue
                        n = len(it.workers_of(r))
                        if r["kind"] == "apply":
                            if n != r["num"]:
                                w.fail(805)
                        else:
                            if not r.get("exhausted"):
                                w.fail(804)
                            if n != r["L"]:
                                w.fail(805)
        w.monitors.append(mon)
        try:
            act(it, select(SPAWN, x1), 0)
            w.ticks(t1)
            for xx, aa in ((x2, a2), (x3, a3)):
                nm = select(PRE, xx)
                if nm == "selfcancel":
                    # the next worker that starts cancels its own group as the first thing it does
                    w.op("arm-selfcancel")

                    def selfcancel():
                        me = w.W[-1]
                        for r in it.live_reqs():
                            if r["idx"] == me["req"]:
                                e = w.do_cancel_group(pool, r["group"])
                                if e is None:
                                    it._mark_cancelled(r)
                    w.arm("wstart", selfcancel)
                else:
                    act(it, nm, aa)
            w.ticks(t)
            it.until_closed()
            if dord == 2:
                it.lock()       # "no new requests, then drain": the pool is already locked when gather_and_close() is called
            it.gather_and_close(rx == 1)
            if dord == 3:
                w.settle()
                w.op("gather-again", rx == 1)
                st["g2"] = w.do_gather(pool, rx == 1)
            for c, b in ((c1, b1), (c2, b2), (c3, b3)):
                w.settle()
                act(it, select(COMP, c), b)
            w.settle()
            w.drain(newest_first=(dord == 1))
            if w.excluded:
                raise Excluded(w.excluded)
        except Excluded as e:
            w.excluded = str(e)
        code = w.err
        if not code and not w.excluded:
            code = _final(w, it, pool, rx)
            if not code and st.get("g2") is not None and task_outcome(st["g2"])[0] == "pending":
                code = 801
        if _twin and not code and not w.excluded:
            if st["seen"] and len(w.W) >= 4 and any(r["kind"] == "map" for r in it.reqs):
                code = 77
        return code
    finally:
        w.close(code)


def _final(w, it, pool, rx):
    g = it.gather[0]
    kind, exc = task_outcome(g)
    faults = [r["exc"] for r in w.W if "exc" in r]
    if kind == "pending":
        return 801
    if kind == "cancelled":
        return 802
    if kind == "exc":
        if not faults or rx == 1:
            return 802
        if not any(exc is f for f in faults):
            return 810
        return 0    # it raised a task's own exception: nothing further is promised by this property
    if task_outcome(it.waiter)[0] != "ok":
        return 807
    if pool.num_running or pool.num_cancelled or pool.num_ended:
        return 808
    fn = w.worker(90)
    for call in (lambda: pool.apply(fn), lambda: pool.map(fn, [1]), lambda: pool.starmap(fn, [(1,)]),
                 lambda: pool.doublestarmap(fn, [{}])):
        try:
            call()
            return 809
        except PoolIsClosed:
            pass
    return 0


def families(tier):
    thorough = tier == "thorough"
    P0 = None
    P = ["size", "cb", "x1", "x2", "a2", "x3", "a3", "rx", "c1", "b1", "c2", "b2", "c3", "b3", "t1", "t", "dord"]
    pre = ["size >= 1", "cb == 1 or cb == 3", "0 <= x1 < 4", "0 <= x2 <= %d" % NOPP, "a2 >= -1", "0 <= x3 <= %d" % NOPP, "a3 >= -1", "0 <= rx <= 1",
           "0 <= c1 <= %d" % NOPC, "b1 >= 0", "0 <= c2 <= %d" % NOPC, "b2 >= 0", "0 <= c3 <= %d" % NOPC, "b3 >= 0", "t1 >= 0", "t >= 0", "0 <= dord <= 3"]
    if not thorough:
        pre += ["t1 >= 4", "size <= 2", "a2 <= 1",
                "(dord == 0 and c2 == %d and b2 == 0 and c3 == %d and b3 == 0 and b1 <= 1) or "
                "(dord == 1 and x1 == 2 and x2 == %d and rx == 0 and c1 == 0 and c2 == 0 and c3 == 0 and b1 <= 2 and b2 <= 2 and b3 <= 2) or "
                "(dord >= 2 and x2 == %d and c2 == %d and b2 == 0 and c3 == %d and b3 == 0 and b1 <= 1)" % (NOPC, NOPC, NOPP, NOPP, NOPC, NOPC),
                "x3 == %d or (x2 <= 1 and 2 <= x3 <= 3) or (2 <= x2 <= 3 and x3 <= 1) or (x2 == 6 and x3 <= 1) or (x2 == 4 and x3 == 4)" % NOPP,
                "a3 <= 1", "t == 0 or t >= 4", "rx == 0 or x2 >= 4"]
        parts = [p for p in parts_product(cb=(3,), x1=range(4), x2=range(NOPP + 1), rx=(0, 1))
                 if not ("rx == 1" in p and any(("x2 == %d" % k) in p for k in range(4)))]
        parts = [p for p in parts if not ("x2 == 6" in p and ("rx == 1" in p or "x1 == 0" in p or "x1 == 3" in p))]
        parts = [p for p in parts if not ("x2 == 5" in p and "rx == 1" in p)]
        parts = refine(parts, ["x2 == 2", "x2 == 3", "x2 == 6"], "x3", (0, 1, NOPP))
        parts = refine(parts, ["x2 == 4"], "x3", (4, NOPP))
        parts = [q for p in parts for q in ([p + ["a2 == %d" % v] for v in (-1, 0, 1)] if ("x2 == 4" in p and "x3 == 4" in p) else [p])]
        parts = [p + ["dord == 0"] for p in parts] + [["cb == 3", "x1 == 2", "x2 == %d" % NOPP, "rx == 0", "dord == 1", "b1 == %d" % b] for b in range(3)]
        parts += [["cb == 3", "x1 == %d" % k, "x2 == %d" % NOPP, "rx == %d" % r, "dord == %d" % dd] for k in range(4) for r in (0, 1) for dd in (2, 3)]
    else:
        # sized to finish inside the wall budget on 16 cores: a second completion step only with the gated callbacks (cb 3)
        pre += ["dord == 0 or (x2 == %d and x3 == %d)" % (NOPP, NOPP), "t1 >= 4", "c3 == %d" % NOPC, "b3 == 0", "size <= 2", "b1 <= 1", "a2 <= 1", "b2 <= 1", "cb == 3 or c2 == %d" % NOPC,
                "x3 == %d or (x2 <= 1 and 2 <= x3 <= 3) or (2 <= x2 <= 3 and x3 <= 1) or (x2 == 6 and x3 <= 1) or (x2 == 4 and x3 == 4)" % NOPP, "a3 <= 1", "t == 0 or t >= 4"]
        parts = [p + ["c1 == %d" % c] for p in parts_product(cb=(1, 3), x1=range(4), x2=range(NOPP + 1), rx=(0, 1)) for c in range(NOPC + 1)]
    return [Family(name="gather", fn="tpl_gather", params=P, pre=pre, parts=parts,
                   twin_pre=["cb == 3", "x1 == 2", "x2 == 0", "x3 == %d" % NOPP, "rx == 0", "c1 == 0", "c2 == %d" % NOPC],
                   twin_args=[2, 3, 2, 0, 0, NOPP, 0, 0, 0, 0, NOPC, 0, NOPC, 0, 9, 9, 0])]
