"""C02 No task and no capacity is ever lost."""
from asyncio_taskpool import SimpleTaskPool, TaskPool
from engine.prog import Interp, act, drive, parts_product, refine, select
from engine.spec import Family
from engine.world import Excluded, World, task_outcome

ID = "C02"
CLAUSES = {
    201: "idle: num_running != workers genuinely in flight",
    202: "idle: num_cancelled != tasks inside their cancel callback",
    203: "idle: slots in use (size - free room) != tasks holding a slot",
    210: "after all work finished a worker is still alive",
    211: "after all work finished tasks still count as running",
    212: "after all work finished tasks still count as cancelled",
    213: "end_callback not delivered exactly once for a created task",
    214: "capacity lost or gained: an N-sized pool did not run exactly N of N+1 new tasks",
    215: "a flush() never completed / raised",
    77: "reachability twin",
}
FUNCTIONS = ["BaseTaskPool._task_wrapper", "BaseTaskPool._task_ending", "BaseTaskPool._start_task", "BaseTaskPool.flush"]

SPAWN = ("apply2", "map2", "apply3", "start2")
ALPHA = ("apply", "map", "rel", "fail", "cancel", "cgroup", "call", "flush", "cbrel", "lock", "unlock", "flushx", "gather", "nop")
ALPHA_S = ("start", "stop", "rel", "fail", "cancel", "cgroup", "call", "flush", "cbrel", "lock", "unlock", "flushx", "gather", "nop")
NOP = len(ALPHA) - 1


def tpl_lossi(size, cb, x1, i0, i1, i2, x2, a2, t, _twin=False):
    """Same clauses; the first three workers to start may finish inside their very first step (i_k: 0 = block on the
    gate, 1 = return at once, 2 = raise at once): a task that ends without ever having been suspended."""
    return _loss(size, cb, x1, x2, a2, NOP, 0, NOP, 0, t, _twin, [i0, i1, i2])


def tpl_loss(size, cb, x1, x2, a2, x3, a3, x4, a4, t, _twin=False):
    return _loss(size, cb, x1, x2, a2, x3, a3, x4, a4, t, _twin, [])


def _loss(size, cb, x1, x2, a2, x3, a3, x4, a4, t, _twin, instant):
    w = World("c02.lossi" if instant else "c02.loss")
    w.instant = list(instant)
    code = 0
    try:
        simple = x1 == 3
        if simple:
            ref = [None]
            ecb, ccb = w.callbacks(cb, ref)
            pool = SimpleTaskPool(w.worker(0), pool_size=size, end_callback=ecb, cancel_callback=ccb)
            ref[0] = pool
            it = Interp(w, pool, cbkind=0)
            alpha = ALPHA_S
        else:
            pool = TaskPool(pool_size=size)
            it = Interp(w, pool, cbkind=cb)
            alpha = ALPHA

        def idle():
            if not w.idle:
                return
            incancel = 0
            for s in w.slow:
                if s[0] == "cancel" and not s[2].done():
                    incancel += 1
            if pool.num_running != w.live:
                w.fail(201)
            if pool.num_cancelled != incancel:
                w.fail(202)
            if size - pool._enough_room._value != w.live + incancel:
                w.fail(203)
        try:
            act(it, select(SPAWN, x1), 0)
            # three-step programmes are wound down newest callback first (the two-step ones oldest first)
            drive(w, it, alpha, [(NOP, 0), (x2, a2), (x3, a3), (x4, a4)], t, idle, newest_first=(x4 != NOP))
        except Excluded as e:
            w.excluded = str(e)
        code = w.err
        if not code and not w.excluded:
            code = _final(w, it, pool, size, cb, simple)
        if _twin and not code and not w.excluded:
            if instant:
                if len(w.W) >= 3 and sum(1 for r in w.W if r.get("instant")) >= 2:
                    code = 77
            elif len(w.W) >= 3 and any(r["state"] == "cancelled" for r in w.W):
                code = 77
        return code
    finally:
        w.close(code)


def _final(w, it, pool, size, cb, simple):
    if w.live:
        return 210
    if pool.num_running:
        return 211
    if pool.num_cancelled:
        return 212
    for f, _, _ in it.flushes:
        if task_outcome(f)[0] != "ok" and f not in it.flush_cancelled:
            return 215
    if cb:
        for i in range(pool._num_started):
            if sum(1 for c in w.cb if c[0] == "end" and c[1] == i) != 1:
                return 213
    if pool._closed.is_set():
        return 0          # closed for good: no capacity left to probe
    before = len(w.W)
    del w.instant[:]
    pool.unlock()
    if simple:
        pool.start(size + 1)
    else:
        pool.apply(w.worker(99), num=size + 1)
    w.settle()
    if len(w.W) - before != size:
        return 214
    if w.live != size:
        return 214
    return 0


def families(tier):
    thorough = tier == "thorough"
    P = ["size", "cb", "x1", "x2", "a2", "x3", "a3", "x4", "a4", "t"]
    base = ["0 <= cb <= 3", "0 <= x1 <= 3", "0 <= x2 < %d" % NOP, "a2 >= -1", "t >= 0"]
    if not thorough:
        pre = base + ["0 <= size <= 2", "0 <= x3 < %d" % NOP, "a3 >= -1", "x4 == %d or (x2 == 4 and x3 == 7 and x4 == 11) or (x2 == 2 and x3 == 7 and x4 == 2)" % NOP, "a4 >= -1", "a4 <= 2", "a4 == 0 or x4 == 2"]
        parts = parts_product(cb=(3,), x1=(0, 1, 3), x2=range(NOP - 2), x3=(4, 7, 8))
        parts += parts_product(cb=(3,), x1=(0, 1, 3), x2=(9,), x3=(2,))      # lock, then a task finishes
        parts = [p + ["x4 == %d" % NOP] for p in parts]
        parts += parts_product(cb=(3,), x1=(0, 1, 3), x2=(4,), x3=(7,), x4=(11,))   # cancel; flush; the flush call is cancelled
        parts += [p + ["x4 == %d" % NOP] for p in parts_product(cb=(3,), x1=(0, 1), x2=(12,), x3=(0, 1, 2, 3))]   # gather_and_close(); a task finishes / fails meanwhile
        parts += parts_product(cb=(3,), x1=(0, 1, 3), x2=(2,), x3=(7,), x4=(2,))    # a task ends (slow callback); flush(); another task ends while the flush waits
    else:
        pre = base + ["0 <= size <= 3", "0 <= x3 <= %d" % NOP, "a3 >= -1", "x4 == %d" % NOP, "a4 == 0"]
        parts = refine(parts_product(cb=(1, 3), x1=range(4), x2=range(NOP)), ["x2 == 0", "x2 == 1"], "x3", range(NOP + 1))
    fams = [Family(name="loss", fn="tpl_loss", params=P, pre=pre, parts=parts,
                   twin_pre=["cb == 3", "x1 == 0", "x2 == 0", "x3 == 4", "x4 == %d" % NOP],
                   twin_args=[2, 3, 0, 0, 2, 4, 0, NOP, 0, 5])]
    PI = ["size", "cb", "x1", "i0", "i1", "i2", "x2", "a2", "t"]
    prei = ["0 <= cb <= 3", "0 <= x1 <= 3", "0 <= i0 <= 2", "0 <= i1 <= 2", "0 <= i2 <= 2", "i0 + i1 + i2 > 0",
            "0 <= x2 <= %d" % NOP, "a2 >= -1", "t >= 0"]
    if not thorough:
        prei += ["1 <= size <= 2", "cb == 3", "t >= 4", "a2 <= 1", "x2 == 0 or x2 == 4 or x2 == 7 or x2 == %d" % NOP]
        partsi = parts_product(x1=range(4), i0=range(3), i1=range(3))
    else:
        prei += ["0 <= size <= 3", "cb == 0 or cb == 3", "a2 <= 1", "t == 0 or t >= 4", "x2 <= 2 or 4 <= x2 <= 7 or x2 == %d" % NOP]
        partsi = parts_product(cb=(0, 3), x1=range(4), i0=range(3), i1=range(3))
    fams.append(Family(name="lossi", fn="tpl_lossi", params=PI, pre=prei, parts=partsi,
                       twin_pre=["cb == 3", "x1 == 2", "i0 == 1", "i1 == 2", "x2 == %d" % NOP],
                       twin_args=[2, 3, 2, 1, 2, 0, NOP, 0, 5]))
    return fams
