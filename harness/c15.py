"""C15 pool_size reports and enforces the configured maximum when changed."""
from asyncio_taskpool import SimpleTaskPool, TaskPool
from engine.prog import Interp, parts_product
from engine.spec import Family
from engine.world import Excluded, World

ID = "C15"
CLAUSES = {
    1501: "pool_size does not report the configured maximum",
    1502: "negative pool_size accepted or wrong error",
    1503: "negative pool_size changed the pool",
    1504: "after raising pool_size the waiting tasks did not start at once up to the new limit",
    1505: "lowering pool_size disturbed a running task",
    1506: "after lowering pool_size a new task was admitted although the running count was not below the limit (or an admissible one was not)",
    1507: "a request issued after the assignment does not respect the new limit",
    1508: "the setter raised for a non-negative value",
    1509: "an accepted invocation that was waiting for room was lost when pool_size was assigned",
    77: "reachability twin",
}
FUNCTIONS = ["BaseTaskPool.pool_size (getter)", "BaseTaskPool.pool_size (setter)", "BaseTaskPool._start_task", "BaseTaskPool._task_ending"]


def _min(a, b):
    return a if a < b else b


def tpl_size(old, d, op, new, d2, simple=0, half=0, _twin=False):
    w = World("c15.size")
    code = 0
    reached = False
    try:
        # old == -1: the pool is created with the default (unbounded) size
        if simple == 1:
            pool = SimpleTaskPool(w.worker(0)) if old == -1 else SimpleTaskPool(w.worker(0), pool_size=old)
        else:
            pool = TaskPool() if old == -1 else TaskPool(pool_size=old)
        it = Interp(w, pool, cbkind=0)
        spawn = it.start if simple == 1 else it.apply
        try:
            spawn(d)
            w.settle()
            k = w.live                       # running; d - k are waiting for room
            if k != (d if old == -1 else _min(old, d)):
                code = 1507
            if not code and op == 0:
                w.op("get")
                if k >= 1 and "T5" in w.open:
                    raise Excluded("T5")
                if old != -1 and pool.pool_size != old:
                    code = 1501
                if old == -1 and pool.pool_size != float("inf"):
                    code = 1501
            elif not code:
                w.op("set", new)
                if half == 1 and new < 0:
                    from fractions import Fraction
                    new = Fraction(new, 2)      # e.g. -1/2: still negative, still to be rejected
                elif half == 2 and new < 0:
                    new = float("-inf")
                if new < 0:
                    snap = (pool.num_running, w.live, pool._enough_room._value, len(w.W))
                    try:
                        pool.pool_size = new
                        code = 1502
                    except ValueError:
                        w.settle()
                        if (pool.num_running, w.live, pool._enough_room._value, len(w.W)) != snap:
                            code = 1503
                    except Exception:  # noqa: BLE001
                        code = 1502
                else:
                    if d >= 1 and "T6" in w.open:
                        raise Excluded("T6")
                    states = [(x["state"], x["cancels"]) for x in w.W]
                    try:
                        pool.pool_size = new
                    except Exception:  # noqa: BLE001
                        code = 1508
                    if not code and not (k >= 1 and "T5" in w.open) and pool.pool_size != new:
                        code = 1501
                    w.settle()
                    if not code:
                        if new >= k:
                            if w.live != _min(new, d):
                                code = 1504
                        else:
                            if [(x["state"], x["cancels"]) for x in w.W][:len(states)] != states or w.live != k:
                                code = 1505
                    if not code and k >= 1:
                        # one running task finishes
                        it.release(0)
                        w.settle()
                        want = k - 1 if k - 1 >= new else _min(new, d - 1)
                        if new >= k:
                            want = _min(new, d - 1)
                        if w.live != want:
                            code = 1506
                    if not code:
                        live0 = w.live
                        spawn(d2)
                        w.settle()
                        room = new - live0 if new > live0 else 0
                        waiting = (d - 1 if k >= 1 else d) - live0
                        if w.live != live0 + _min(room, d2 + waiting):
                            code = 1507
                        reached = True
        except Excluded as e:
            w.excluded = str(e)
        code = code or w.err
        if _twin and not code and not w.excluded and reached and w.live >= 2:
            code = 77
        return code
    finally:
        w.close(code)


def tpl_reassign(old, k, x, y, d2, _twin=False):
    """History first, then the part that must hold whatever came before: k tasks run, pool_size = x is assigned
    meanwhile (that assignment itself is the open finding T6 and is not judged), all tasks finish, and then - on the
    idle pool - pool_size = y is assigned: y is what is reported and what the next request is held to."""
    w = World("c15.reassign")
    code = 0
    try:
        pool = TaskPool(pool_size=old)
        it = Interp(w, pool, cbkind=0)
        it.apply(k)
        w.settle()
        w.op("set-while-running", x)
        pool.pool_size = x
        w.drain()
        if w.live or pool.num_running:
            return 0          # (cannot happen for k <= old)
        w.op("set-idle", y)
        pool.pool_size = y
        if pool.pool_size != y:
            code = 1501
        before = len(w.W)
        it.apply(d2)
        w.settle()
        if not code and w.live != _min(y, d2):
            code = 1507
        if _twin and not code and x == y and k >= 1 and d2 > y:
            code = 77
        return code
    finally:
        w.close(code)


def tpl_history(size, k, h, r, d2, _twin=False):
    """The read and the admission on an *idle* pool after a history: k <= size tasks ran while the pool was locked and
    unlocked again (h 1), were cancelled (h 2), failed (h 3), were flushed (h 4), or just finished (h 0), r of them ending
    inside the special period.  Nothing was ever assigned: the configured maximum is still `size`."""
    w = World("c15.history")
    code = 0
    try:
        pool = TaskPool(pool_size=size)
        it = Interp(w, pool, cbkind=0)
        it.apply(k)
        w.settle()
        if h == 1:
            it.lock()
        for j in range(k):
            if j < r:
                if h == 2:
                    it.cancel(j)
                elif h == 3:
                    it.fail(j)
                else:
                    it.release(j)
                w.settle()
        if h == 1:
            it.unlock()
        w.drain()
        if h == 4:
            it.flush(True)
            w.settle()
        if w.live or pool.num_running:
            return 0
        if pool.pool_size != size:
            code = 1501
        it.apply(d2)
        w.settle()
        if not code and w.live != _min(size, d2):
            code = 1507
        if _twin and not code and h == 1 and r >= 2 and d2 > size:
            code = 77
        return code
    finally:
        w.close(code)


def tpl_eventually(old, d, new, _twin=False):
    """d invocations requested on an old-sized pool (some run, some wait); pool_size = new >= 1 is assigned meanwhile
    (what that assignment does to the limit is the open finding T6 and is not judged); then the running tasks finish
    one by one.  Whatever the limit now is, it is >= 1: every accepted invocation must eventually happen."""
    w = World("c15.eventually")
    code = 0
    try:
        pool = TaskPool(pool_size=old)
        it = Interp(w, pool, cbkind=0)
        it.apply(d)
        w.settle()
        w.op("set", new)
        pool.pool_size = new
        w.settle()
        w.drain()
        if len(w.W) != d:
            code = 1509
        if _twin and not code and d > old:
            code = 77
        return code
    finally:
        w.close(code)


def families(tier):
    thorough = tier == "thorough"
    P = ["old", "d", "op", "new", "d2", "simple", "half"]
    dm = 4 if thorough else 3
    pre = ["old >= -1", "0 <= d <= %d" % dm, "0 <= op <= 1", "0 <= d2 <= 3", "op == 1 or (new == 0 and d2 == 0)", "0 <= simple <= 1", "0 <= half <= 2", "half == 0 or (op == 1 and -9 <= new < 0)", "half != 2 or new == -1"]
    return [Family(name="size", fn="tpl_size", params=P, pre=pre, parts=parts_product(d=range(dm + 1), op=(0, 1), simple=(0, 1)),
                   twin_pre=["d == 0", "op == 1"], twin_args=[1, 0, 1, 3, 2, 0, 0]),
            Family(name="eventually", fn="tpl_eventually", params=["old", "d", "new"],
                   pre=["old >= 1", "1 <= d <= %d" % dm, "new >= 1"], parts=parts_product(d=range(1, dm + 1)),
                   twin_pre=["d == 3"], twin_args=[1, 3, 2]),
            Family(name="history", fn="tpl_history", params=["size", "k", "h", "r", "d2"],
                   pre=["1 <= size", "1 <= k <= 3", "k <= size", "0 <= h <= 4", "0 <= r <= 3", "0 <= d2 <= 4"],
                   parts=parts_product(h=range(5)), twin_pre=["h == 1", "k == 2"], twin_args=[2, 2, 1, 2, 3]),
            Family(name="reassign", fn="tpl_reassign", params=["old", "k", "x", "y", "d2"],
                   pre=["1 <= old", "1 <= k <= 3", "k <= old", "x >= 0", "y >= 0", "0 <= d2 <= 3"],
                   parts=parts_product(k=(1, 2, 3)), twin_pre=["k == 2"], twin_args=[3, 2, 1, 1, 3])]
