"""C04 apply/start run exactly the requested invocations."""
from asyncio_taskpool import SimpleTaskPool, TaskPool
from asyncio_taskpool.exceptions import PoolException
from engine.prog import Interp, act, drive, parts_product, select
from engine.spec import Family
from engine.world import Excluded, World, task_outcome

ID = "C04"
CLAUSES = {
    401: "a request did not lead to exactly num (minus call-time failures) invocations",
    402: "an invocation received other positional arguments than its request's",
    403: "an invocation received other keyword arguments than its request's",
    404: "get_group_ids(group) does not list exactly one id per invocation of the request",
    405: "a task id belongs to two groups",
    406: "an invocation's task id is not in its own request's group",
    407: "a cancelled request ran more invocations than requested",
    408: "spawner/meta task died with an exception (seen through gather_and_close/flush)",
    77: "reachability twin",
}
FUNCTIONS = ["TaskPool.apply", "TaskPool._apply_spawner", "SimpleTaskPool.start", "SimpleTaskPool._start_num",
             "BaseTaskPool._start_task", "BaseTaskPool._check_start", "BaseTaskPool.lock", "BaseTaskPool.gather_and_close"]

A, B, KV = ("A",), ("B",), ("KV",)      # identity-checked sentinels
# the last shape's keyword names coincide with parameter names used inside the library (legal names for a user's function)
SHAPES = (((), None), ((A,), None), ((A, B), None), ((), {"k": KV}),
          ((A,), {"k": KV, "j": B, "func": A, "group_name": KV, "num": B, "args": A, "kwargs": KV, "self": B}))
ALPHA = ("rel", "lock", "unlock", "gather", "cancel", "cgroup", "flush", "again", "nop")
NOP = len(ALPHA) - 1


def _same(args, exp):
    if len(args) != len(exp):
        return False
    for x, y in zip(args, exp):
        if x is not y:
            return False
    return True


def _samekw(kw, exp):
    exp = exp or {}
    if set(kw) != set(exp):
        return False
    for k in exp:
        if kw[k] is not exp[k]:
            return False
    return True


def tpl_req(size, simple, n1, sh, bad, n2, x3, a3, x4, a4, x5, a5, t, _twin=False):
    w = World("c04.req")
    code = 0
    try:
        args, kwargs = (), None
        for k in range(len(SHAPES)):
            if sh == k:
                args, kwargs = SHAPES[k]
        raising = (bad,) if bad >= 0 else ()
        if simple:
            # the pool's function is a decorator-style wrapper: its advertised signature needs one more argument
            fn = w.callsite(0, w.worker(0), raising, decorated=True)
            pool = SimpleTaskPool(fn, args=args, kwargs=kwargs, pool_size=size)
        else:
            pool = TaskPool(pool_size=size)
        it = Interp(w, pool, cbkind=0)
        try:
            if simple:
                it.start(n1)
            else:
                it.apply(n1, args=args, kwargs=kwargs, raising=raising, decorated=True)
            w.ticks(t)
            if simple:
                it.start(n2)
            else:
                # the competing request's function returns non-native Coroutine objects
                it.apply(n2, args=(B,), kwargs={"z": A}, proxy=True)
            drive(w, it, ALPHA, [(NOP, 0), (x3, a3), (x4, a4), (x5, a5)], 0, None)
        except Excluded as e:
            w.excluded = str(e)
        code = w.err
        if not code and not w.excluded:
            if size == 0:
                code = 401 if w.W else 0      # nothing may start; the requests stay pending, none is lost
            else:
                code = _final(w, it, pool, simple, args, kwargs, raising)
        if _twin and not code and not w.excluded:
            if len(w.W) >= 3 and pool.is_locked and w.calls:
                code = 77
        return code
    finally:
        w.close(code)


def _final(w, it, pool, simple, args, kwargs, raising):
    for f, _, _ in it.flushes:
        if task_outcome(f)[0] == "exc":
            return 408
    if it.gather is not None and task_outcome(it.gather[0])[0] == "exc":
        return 408
    seen = {}
    if simple:
        # all start() requests share the pool's function: invocations are attributed through the groups
        total = sum(r["num"] for r in it.reqs if not r["cancelled"])
        anyc = any(r["cancelled"] for r in it.reqs)
        calls = w.calls.get(0, 0)
        nraise = sum(1 for b in raising if b < calls)
        if not anyc:
            if len(w.W) != total - nraise:
                return 401
        for x in w.W:
            if not _same(x["args"], args):
                return 402
            if not _samekw(x["kw"], kwargs):
                return 403
    for r in it.reqs:
        ws = it.workers_of(r) if not simple else None
        if not simple:
            exp = r["num"] - sum(1 for b in r["raising"] if b < r["num"])
            if r["cancelled"]:
                if len(ws) > exp:
                    return 407
            elif len(ws) != exp:
                return 401
            for x in ws:
                if not _same(x["args"], r["args"]):
                    return 402
                if not _samekw(x["kw"], r["kwargs"]):
                    return 403
        if r["cancelled"]:
            continue
        try:
            ids = pool.get_group_ids(r["group"])
        except PoolException:
            return 404
        if not simple:
            if len(ids) != len(ws):
                return 404
            for x in ws:
                if x["id"] not in ids:
                    return 406
        for i in ids:
            if i in seen:
                return 405
            seen[i] = r["idx"]
    if simple and not any(r["cancelled"] for r in it.reqs):
        if len(seen) != len(w.W):
            return 404
    return 0


def families(tier):
    thorough = tier == "thorough"
    P = ["size", "simple", "n1", "sh", "bad", "n2", "x3", "a3", "x4", "a4", "x5", "a5", "t"]
    base = ["size >= 0", "0 <= simple <= 1", "0 <= n1 <= 3", "0 <= sh < %d" % len(SHAPES), "-1 <= bad <= 2",
            "0 <= n2 <= 2", "0 <= x3 < %d" % NOP, "a3 >= -1", "0 <= x4 <= %d" % NOP, "a4 >= -1", "t >= 0"]
    if not thorough:
        # quick: one request shape (args+kwargs, first call raises), second request settled (t >= 4)
        pre = base + ["x5 == %d" % NOP, "a5 == 0", "sh == 4", "0 <= bad <= 1", "n1 == 3", "n2 == 1", "size >= 1", "t >= 4"]
        parts = parts_product(simple=(0, 1), bad=(0, 1), x3=range(NOP - 1), x4=(0, 1, 3, 5, NOP))
        # a third request (same function, so the generated name of a cancelled group may come round again) after a cancellation
        parts += parts_product(simple=(0, 1), bad=(0, 1), x3=(4, 5), x4=(NOP - 1,))
    else:
        pre = base + ["x5 == %d" % NOP, "a5 == 0", "sh == 4", "-1 <= bad <= 1", "2 <= n1 <= 3", "n2 == 1"]
        parts = parts_product(simple=(0, 1), n1=(2, 3), bad=(-1, 0, 1), x3=range(NOP), x4=range(NOP + 1))
    return [Family(name="req", fn="tpl_req", params=P, pre=pre, parts=parts,
                   twin_pre=["simple == 0", "n1 == 3", "n2 == 1", "bad == 0", "x3 == 0", "x4 == 1", "x5 == %d" % NOP],
                   twin_args=[4, 0, 3, 4, 0, 1, 0, 0, 1, 0, NOP, 0, 5])]
