"""C06 cancel(ids) is exact and all-or-nothing."""
from asyncio_taskpool import TaskPool
from asyncio_taskpool.exceptions import AlreadyCancelled, AlreadyEnded, InvalidTaskID
from engine.prog import Interp, act, parts_product, select
from engine.spec import Family
from engine.world import Excluded, World, task_outcome

ID = "C06"
CLAUSES = {
    601: "cancel() raised a different error class than the state of the first offending id demands (or none / one too many)",
    602: "cancel() raised but a task was cancelled nevertheless",
    603: "a named running task did not observe exactly one CancelledError",
    604: "a task that was not named observed a CancelledError / stopped waiting",
    607: "the msg given to cancel() did not reach the cancelled task's CancelledError",
    606: "a second cancel() of ids that were just cancelled did not raise AlreadyCancelled",
    605: "prologue did not reach the intended states (harness)",
    77: "reachability twin",
}
FUNCTIONS = ["BaseTaskPool.cancel", "BaseTaskPool._get_running_task", "BaseTaskPool._get_cancel_kw"]

VAR = ("rel", "cancel", "cbrel", "flush", "fail", "selfret", "nop")
NOP = len(VAR) - 1


def _classify(w, forgotten, created, i):
    """Expected outcome for id i from harness-side knowledge only: 'run', 'cancelled', 'ended' or 'unknown'."""
    if not (0 <= i < created):
        return "unknown"
    for f in forgotten:
        if i == f:
            return "unknown"
    recs = [r for r in w.W if r["id"] == i]
    if not recs or recs[0]["state"] == "run":
        return "run"
    if any(c[0] == "end" and c[1] == i for c in w.cb):
        return "ended"
    if recs[0]["state"] == "cancelled":
        return "cancelled"
    return "ended"


def tpl_cancelpark(k, i1, i2, i3, m, _twin=False):
    """The two running tasks (ids 3 and 4) are both suspended in the same library call, pool.until_closed(), instead of
    on futures of their own: cancelling one of them must not reach the other."""
    return tpl_cancel(NOP, 0, 0, k, i1, i2, i3, 0, m, 0, _twin, 1)


def tpl_cancel(v, av, e, k, i1, i2, i3, t, m=0, sw=0, _twin=False, pk=0):
    w = World("c06.cancelpark" if pk else "c06.cancel")
    code = 0
    try:
        pool = TaskPool(pool_size=10)
        it = Interp(w, pool, cbkind=3)
        try:
            # fixed prologue: ids 0 flushed, 1 ended (inside its slow end callback), 2 cancelled (inside its slow
            # cancel callback), 3 and 4 running
            it.apply(5, swallow=(1 if sw == 1 else 0), park=(pool.until_closed if pk else None), park_from=3); w.settle()
            it.release(0); w.settle()
            it.cb_release(0); w.settle()
            f0 = it.flush(True); w.settle()
            it.release(1); w.settle()
            it.cancel(2); w.settle()
            if sw == 1:                 # workers shrug off their first cancellation: id 2 needs a second one
                it.cancel(2); w.settle()
            if task_outcome(f0)[0] != "ok" or len(w.W) != 5:
                return 605
            # one symbolic variation step, then optionally a fresh request placed t iterations before the call
            if select(VAR, v) == "selfret":
                # a sixth task that cancels itself and returns at once: it *ended* (end callback, counted as ended)
                it.selfret()
                it.apply(1)
            else:
                act(it, select(VAR, v), av)
            w.settle()
            if e == 1:
                it.apply(1)
                w.ticks(t)
            created = pool._num_started
            forgotten = []
            for f, _, snap in it.flushes:
                if task_outcome(f)[0] == "ok":
                    forgotten += list(snap["ended"]) + list(snap["cancelled"])
            ids = [i1, i2, i3][:k]
            exp = None
            for i in ids:
                c = _classify(w, forgotten, created, i)
                if c != "run":
                    exp = {"unknown": InvalidTaskID, "cancelled": AlreadyCancelled, "ended": AlreadyEnded}[c]
                    break
            before = [(r["state"], r["cancels"]) for r in w.W]
            left0 = [r["left"] for r in w.W]
            err = it.cancel(*ids, msg=("why" if m == 1 else None))
            w.settle()
            if exp is None:
                if err is not None:
                    code = 601
            elif err is None or not isinstance(err, exp) or (exp is InvalidTaskID and isinstance(err, (AlreadyCancelled, AlreadyEnded))):
                code = 601
            if not code:
                for n, r in enumerate(w.W):
                    named = any(r["id"] == i for i in ids)
                    st0, c0 = before[n] if n < len(before) else ("run", 0)
                    if err is not None:
                        if (r["state"], r["cancels"]) != (st0, c0):
                            code = 602
                    elif named:
                        want = "run" if (n < len(left0) and left0[n] > 0) else "cancelled"
                        if r["state"] != want or r["cancels"] != c0 + 1:
                            code = 603
                        elif m == 1 and r.get("cancel_args") != ("why",):
                            code = 607
                    elif (r["state"], r["cancels"]) != (st0, c0):
                        code = 604
            if not code and err is not None:
                # a later, valid call must cancel exactly what it names - nothing left over from the rejected call
                victims = [r for r in w.W if r["state"] == "run"]
                if victims:
                    v = victims[-1]
                    snap = [(r["state"], r["cancels"]) for r in w.W]
                    e3 = it.cancel(v["id"])
                    w.settle()
                    if e3 is not None:
                        code = 601
                    for n2, r in enumerate(w.W):
                        if r is v:
                            if r["cancels"] != snap[n2][1] + 1:
                                code = code or 603
                        elif (r["state"], r["cancels"]) != snap[n2]:
                            code = code or 604
            if not code and err is None and k >= 1:
                still = [r for r in w.W if any(r["id"] == i for i in ids) and r["state"] == "run"]
                err2 = it.cancel(*ids)
                if still and len(still) == len([r for r in w.W if any(r["id"] == i for i in ids)]):
                    # the named tasks swallowed the first cancellation and are still running: it must be delivered again
                    w.settle()
                    if err2 is not None:
                        code = 601
                    for r in still:
                        if r["state"] != "cancelled" or r["cancels"] < 2:
                            code = code or 603
                elif not still:
                    # the same ids again: every one of them is now cancelled (inside its slow cancel callback)
                    if not isinstance(err2, AlreadyCancelled):
                        code = 606
        except Excluded as ex:
            w.excluded = str(ex)
            code = 0
        code = code or w.err
        if _twin and not code and not w.excluded:
            if k >= 2 and err is None and sum(1 for r in w.W if r["state"] == "cancelled") >= 3:
                code = 77
        return code
    finally:
        w.close(code)


def families(tier):
    thorough = tier == "thorough"
    P = ["v", "av", "e", "k", "i1", "i2", "i3", "t", "m", "sw"]
    pre = ["0 <= v <= %d" % NOP, "av >= -1", "0 <= e <= 1", "0 <= k <= 3", "t >= 0", "0 <= m <= 1", "0 <= sw <= 1"]
    k3 = [["k == 3", "i1 <= 0"], ["k == 3", "i1 == 1"], ["k == 3", "i1 == 2"], ["k == 3", "i1 == 3"], ["k == 3", "i1 >= 4"]]
    k2 = [["k == 2", "i1 <= 1"], ["k == 2", "i1 == 2 or i1 == 3"], ["k == 2", "i1 >= 4"]]
    if not thorough:
        pre += ["v == %d or v == 1 or v == 3 or v == 5" % NOP, "e == 0 or k <= 2", "e == 0 or v == %d" % NOP,
                "m == 0 or (v == %d and e == 0 and sw == 0)" % NOP, "sw == 0 or (v == %d and e == 0 and k <= 2)" % NOP]
        vs = (1, 3, 5, NOP)
        shapes = [["e == 0", "k <= 1"], ["e == 0", "k == 2"]] + [["e == 0"] + q for q in k3] + [["e == 1", "k <= 1"]] + [["e == 1"] + q for q in k2]
    else:
        pre += ["e == 0 or k <= 2", "e == 0 or v == %d or v == 1 or v == 3" % NOP]
        vs = range(NOP + 1)
        shapes = [["e == 0", "k <= 1"], ["e == 0", "k == 2"]] + [["e == 0"] + q for q in k3] + [["e == 1", "k <= 1"]] + [["e == 1"] + q for q in k2]
    parts = []
    if not thorough:
        parts += [["v == %d" % NOP, "e == 0", "m == 1", "k <= 1"], ["v == %d" % NOP, "e == 0", "m == 1", "k == 2"],
                  ["v == %d" % NOP, "e == 0", "m == 1", "k == 3", "i1 <= 2"], ["v == %d" % NOP, "e == 0", "m == 1", "k == 3", "i1 >= 3"],
                  ["v == %d" % NOP, "e == 0", "sw == 1", "k <= 1"], ["v == %d" % NOP, "e == 0", "sw == 1", "k == 2"]]
    for v in vs:
        for q in shapes:
            if "e == 1" in q and ((not thorough and v != NOP) or (thorough and v not in (NOP, 1, 3))):
                continue
            extra = ["m == 0", "sw == 0"] if not thorough else []
            if VAR[v] in ("rel", "cancel", "fail") and "e == 1" in q:
                parts += [["v == %d" % v, a] + q + extra for a in ("av <= 2", "av == 3", "av >= 4")]
            elif thorough:
                parts += [["v == %d" % v] + q + ["m == %d" % mm, "sw == %d" % ss] for mm in (0, 1) for ss in (0, 1)]
            else:
                parts.append(["v == %d" % v] + q + extra)
    PP = ["k", "i1", "i2", "i3", "m"]
    prep = ["0 <= k <= 3", "0 <= m <= 1"]
    partsp = [["k <= 1"], ["k == 2"]] + k3
    return [Family(name="cancel", fn="tpl_cancel", params=P, pre=pre, parts=parts,
                   twin_pre=["v == %d" % NOP, "e == 0", "k == 2"], twin_args=[NOP, 0, 0, 2, 3, 4, 0, 0, 0, 0]),
            Family(name="cancelpark", fn="tpl_cancelpark", params=PP, pre=prep, parts=partsp,
                   twin_pre=["k == 2"], twin_args=[2, 3, 4, 0, 0])]
