"""C01 Pool size is never exceeded."""
from math import inf

from asyncio_taskpool import SimpleTaskPool, TaskPool
from engine.prog import Interp, act, clip, drive, parts_product, refine, select, site_of
from engine.spec import Family
from engine.world import Excluded, HarnessError, World

ID = "C01"
CLAUSES = {
    101: "more worker coroutines begun-and-not-finished than the pool size",
    102: "num_running exceeds the pool size",
    103: "idle, no callback in progress: is_full != (num_running == pool size)",
    77: "reachability twin",
}
FUNCTIONS = ["BaseTaskPool._start_task", "BaseTaskPool._task_wrapper", "BaseTaskPool._task_ending",
             "BaseTaskPool._task_cancellation", "BaseTaskPool.is_full", "BaseTaskPool.num_running"]


def _bound(size):
    return inf if size == -1 else size


def _mkpool(size, simple, w):
    if simple:
        fn = w.worker(0)
        if size == -1:
            return SimpleTaskPool(fn)
        return SimpleTaskPool(fn, pool_size=size)
    if size == -1:
        return TaskPool()
    return TaskPool(pool_size=size)


def _install(w, pool, size):
    b = _bound(size)

    def mon():
        if w.live > b:
            w.fail(101)
        if pool.num_running > b:
            w.fail(102)
    w.monitors.append(mon)

    def idle_check():
        if w.idle and not w.incb:
            if pool.is_full != (pool.num_running == b):
                w.fail(103)
    return idle_check


def tpl_two(size, n1, n2, r1, t, other=0, _twin=False):
    """Two competing apply requests (the second placed after t iterations), one release of an arbitrary worker."""
    w = World("c01.two")
    code = 0
    try:
        pool = _mkpool(size, False, w)
        if other == 1:
            # another pool of a different size lives in the same loop (created later, idle): pools are independent
            neighbour = TaskPool(pool_size=(5 if size == -1 else size + 3))
            w.op("neighbour-pool")
        it = Interp(w, pool, cbkind=1)
        idle_check = _install(w, pool, size)
        try:
            it.apply(n1)
            w.ticks(t)
            it.apply(n2)
            w.settle(); idle_check()
            it.release(r1)
            w.settle(); idle_check()
            w.drain(); idle_check()
        except Excluded as e:
            w.excluded = str(e)
        code = w.err
        if _twin and not code and not w.excluded and len(w.W) >= 3 and w.peak >= 2 and w.evals > 3:
            code = 77
        return code
    finally:
        w.close(code)


def tpl_queued(size, n1, n2, n3, k, r1, _twin=False):
    """Three requests (separate groups) compete for a small pool, so that spawners of different groups are queued for
    room; the k-th group is cancelled (possibly one that has not started anything), then an arbitrary worker ends."""
    w = World("c01.queued")
    code = 0
    try:
        pool = _mkpool(size, False, w)
        it = Interp(w, pool, cbkind=1)
        idle_check = _install(w, pool, size)
        try:
            it.apply(n1); w.settle()
            it.apply(n2); w.settle()
            it.apply(n3); w.settle(); idle_check()
            it.cancel_group(k)
            w.settle(); idle_check()
            it.release(r1)
            w.settle(); idle_check()
            w.drain(); idle_check()
        except Excluded as e:
            w.excluded = str(e)
        code = w.err
        if _twin and not code and not w.excluded and len(w.W) >= 2 and any(r["cancelled"] for r in it.reqs) and w.peak >= 1:
            code = 77
        return code
    finally:
        w.close(code)


def tpl_lockcycle(size, simple, n1, t, r1, n2, _twin=False):
    """A request, then lock() t iterations later (the spawner may still be about to ask for room: it is refused),
    an arbitrary worker released, unlock(), and a second request of n2 tasks: the bound holds through the refusal and after it."""
    w = World("c01.lockcycle")
    code = 0
    try:
        pool = _mkpool(size, simple == 1, w)
        it = Interp(w, pool, cbkind=1 if simple != 1 else 0)
        idle_check = _install(w, pool, size)
        try:
            if simple == 1:
                it.start(n1)
            else:
                it.apply(n1)
            w.ticks(t)
            it.lock()
            w.settle(); idle_check()
            it.release(r1)
            w.settle(); idle_check()
            it.unlock()
            if simple == 1:
                it.start(n2)
            else:
                it.apply(n2)
            w.settle(); idle_check()
            w.drain(); idle_check()
        except Excluded as e:
            w.excluded = str(e)
        code = w.err
        if _twin and not code and not w.excluded and len(w.W) >= 3 and w.peak >= 2 and len(w.W) < n1 + n2:
            code = 77
        return code
    finally:
        w.close(code)


SPAWN = ("apply2", "map2", "apply3", "starmap2")
ALPHA = ("apply", "map", "rel", "fail", "cancel", "cgroup", "call", "flush", "nop")
SPAWN_S = ("start2",)
ALPHA_S = ("start", "rel", "fail", "cancel", "stop", "call", "flush", "nop")


def _prog(simple, size, x1, x2, a2, s2, x3, a3, x4, a4, t, _twin):
    alpha = ALPHA_S if simple else ALPHA
    spawn = SPAWN_S if simple else SPAWN
    w = World("c01.simple" if simple else "c01.prog")
    code = 0
    try:
        pool = _mkpool(size, simple, w)
        it = Interp(w, pool, cbkind=1)
        idle_check = _install(w, pool, size)
        try:
            act(it, select(spawn, x1), 0)
            drive(w, it, alpha, [(len(alpha) - 1, 0), (x2, a2), (x3, a3), (x4, a4)], t, idle_check, site_of(s2))
        except Excluded as e:
            w.excluded = str(e)
        code = w.err
        if w.excluded and w.excluded not in w.open:
            raise HarnessError("excluded without open trigger")
        if _twin and not code and not w.excluded and len(w.W) >= 2 and w.evals > 3:
            code = 77
        return code
    finally:
        w.close(code)


def tpl_slowcb(size, x1, a2, x3, a3, _twin=False):
    """Slow (awaiting) callbacks: a task is cancelled and sits in its cancel callback while a flush() call that
    waits for it is itself cancelled (e.g. a wait_for() around it timed out); then more work is requested."""
    w = World("c01.slowcb")
    code = 0
    try:
        pool = _mkpool(size, False, w)
        it = Interp(w, pool, cbkind=3)
        idle_check = _install(w, pool, size)
        try:
            act(it, select(SPAWN, x1), 0)
            w.settle()
            it.cancel(a2)
            w.settle()
            it.flush(True)
            w.settle()
            it.cancel_flush()
            w.settle()
            act(it, select(ALPHA, x3), a3)
            w.settle()
            it.apply(2)
            w.settle(); idle_check()
            w.drain(); idle_check()
        except Excluded as e:
            w.excluded = str(e)
        code = w.err
        if _twin and not code and not w.excluded and it.flush_cancelled and len(w.W) >= 3:
            code = 77
        return code
    finally:
        w.close(code)


def tpl_prog(size, x1, x2, a2, s2, x3, a3, x4, a4, t, _twin=False):
    return _prog(False, size, x1, x2, a2, s2, x3, a3, x4, a4, t, _twin)


def tpl_simple(size, x1, x2, a2, s2, x3, a3, x4, a4, t, _twin=False):
    return _prog(True, size, x1, x2, a2, s2, x3, a3, x4, a4, t, _twin)


def families(tier):
    thorough = tier == "thorough"
    na, ns = len(ALPHA), len(ALPHA_S)
    P = ["size", "x1", "x2", "a2", "s2", "x3", "a3", "x4", "a4", "t"]
    fams = [Family(
        name="two", fn="tpl_two", params=["size", "n1", "n2", "r1", "t", "other"],
        pre=["size >= -1", "0 <= n1 <= 3", "0 <= n2 <= 3", "r1 >= 0", "t >= 0", "0 <= other <= 1", "other == 0 or (n1 == 3 and t >= 4)"],
        parts=[q for p in parts_product(n1=range(4), n2=range(4)) for q in ([p + ["other == 0"], p + ["other == 1"]] if "n1 == 3" in p else [p + ["other == 0"]])],
        twin_args=[2, 2, 2, 0, 0, 0],
    )]
    fams.append(Family(
        name="slowcb", fn="tpl_slowcb", params=["size", "x1", "a2", "x3", "a3"],
        pre=["size >= 0", "0 <= x1 < 4", "a2 >= -1", "0 <= x3 < %d" % na, "a3 >= -1"] + ([] if thorough else ["a2 <= 2", "a3 <= 2", "size <= 4"]),
        parts=parts_product(x1=range(4), x3=range(na)),
        twin_pre=["x1 == 0"], twin_args=[2, 0, 0, na - 1, 0]))
    fams.append(Family(
        name="queued", fn="tpl_queued", params=["size", "n1", "n2", "n3", "k", "r1"],
        pre=["size >= 0", "1 <= n1 <= 3", "1 <= n2 <= 3", "1 <= n3 <= 2", "0 <= k <= 2", "r1 >= 0"] + ([] if thorough else ["size <= 3", "r1 <= 4"]),
        parts=parts_product(n1=(1, 2, 3), k=(0, 1, 2)), twin_pre=["n1 == 2", "k == 2"], twin_args=[2, 2, 2, 1, 2, 0]))
    fams.append(Family(
        name="lockcycle", fn="tpl_lockcycle", params=["size", "simple", "n1", "t", "r1", "n2"],
        pre=["size >= -1", "0 <= simple <= 1", "1 <= n1 <= 3", "t >= 0", "r1 >= 0", "0 <= n2 <= 4"] + ([] if thorough else ["size <= 3", "r1 <= 3"]),
        parts=parts_product(simple=(0, 1), n1=(1, 2, 3)) if not thorough else parts_product(simple=(0, 1), n1=(1, 2, 3), n2=range(5)),
        twin_pre=["simple == 0", "n1 == 3"], twin_args=[2, 0, 3, 0, 0, 3]))
    if not thorough:
        # K = 2 after the spawn, step 2 at any boundary (t) or embedded in any user-code site (s2)
        fams.append(Family(
            name="prog", fn="tpl_prog", params=P,
            pre=["size >= -1", "0 <= x1 < 2", "0 <= x2 < %d" % na, "a2 >= -1", "0 <= s2 <= 4",
                 "x3 == %d" % (na - 1), "a3 == 0", "x4 == %d" % (na - 1), "a4 == 0", "t >= 0"],
            parts=parts_product(x1=range(2), x2=range(na - 1), s2=range(5)),
            twin_args=[1, 0, 2, 0, 0, na - 1, 0, na - 1, 0, 5],
        ))
        fams.append(Family(
            name="simple", fn="tpl_simple", params=P,
            pre=["size >= -1", "x1 == 0", "0 <= x2 < %d" % ns, "a2 >= -1", "0 <= s2 <= 3",
                 "x3 == %d" % (ns - 1), "a3 == 0", "x4 == %d" % (ns - 1), "a4 == 0", "t >= 0"],
            parts=parts_product(x2=range(ns - 1)),
            twin_args=[1, 0, 2, 0, 0, ns - 1, 0, ns - 1, 0, 5],
        ))
    else:
        # K = 3 at boundaries (s2 == 0), K = 2 with the second step embedded in a user-code site; four spawn kinds
        fams.append(Family(
            name="prog", fn="tpl_prog", params=P,
            pre=["size >= -1", "0 <= x1 < 4", "0 <= x2 < %d" % (na - 1), "a2 >= -1", "0 <= s2 <= 4",
                 "0 <= x3 < %d" % na, "a3 >= -1", "x4 == %d" % (na - 1), "a4 == 0", "t >= 0", "s2 == 0 or x3 == %d" % (na - 1)],
            parts=refine(parts_product(x1=range(4), x2=range(na - 1), s2=range(5)), ["s2 == 0"], "x3", range(na)),
            twin_pre=["x1 == 0", "x2 == 2", "s2 == 0"], twin_args=[1, 0, 2, 0, 0, na - 1, 0, na - 1, 0, 5],
        ))
        fams.append(Family(
            name="simple", fn="tpl_simple", params=P,
            pre=["size >= -1", "x1 == 0", "0 <= x2 < %d" % (ns - 1), "a2 >= -1", "0 <= s2 <= 3",
                 "0 <= x3 < %d" % ns, "a3 >= -1", "x4 == %d" % (ns - 1), "a4 == 0", "t >= 0", "s2 == 0 or x3 == %d" % (ns - 1)],
            parts=refine(parts_product(x2=range(ns - 1), s2=range(4)), ["s2 == 0"], "x3", range(ns)),
            twin_pre=["x2 == 2", "s2 == 0"], twin_args=[1, 0, 2, 0, 0, ns - 1, 0, ns - 1, 0, 5],
        ))
    return fams
