"""C14 SimpleTaskPool.stop is LIFO and exact."""
from asyncio_taskpool import SimpleTaskPool
from engine.prog import Interp, parts_product
from engine.spec import Family
from engine.world import Excluded, World

ID = "C14"
CLAUSES = {
    1401: "stop(n)/stop_all() did not return the min(n, running) most recently started running ids, newest first",
    1402: "a task in the returned list did not observe exactly one CancelledError",
    1403: "a task not in the returned list was disturbed",
    1404: "stop() raised",
    77: "reachability twin",
}
FUNCTIONS = ["SimpleTaskPool.stop", "SimpleTaskPool.stop_all", "BaseTaskPool.cancel", "BaseTaskPool._get_running_task"]


def _pro(it, p, b):
    if p == 0:
        it.release(b)
    elif p == 1:
        it.cancel(b)
    elif p == 2:
        it.fail(b)
    elif p == 3:
        it.stop(b)
    elif p == 5:
        it.flush(True)


AGE = 6


def tpl_stopaged(size, m1, p1, b1, p2, b2, m2, sa, n, _twin=False):
    """The same scenario in a pool that has already run (and flushed) AGE tasks: the ids at stake are 6 .. 10 -
    'newest first' must be numeric, also across a change in the number of digits, and must survive a flush() that
    happens while the running ids have gaps (prologue step 5)."""
    return tpl_stop(size, m1, p1, b1, p2, b2, m2, sa, n, 0, _twin, AGE)


def tpl_stop(size, m1, p1, b1, p2, b2, m2, sa, n, sw=0, _twin=False, age=0):
    w = World("c14.stopaged" if age else "c14.stop")
    code = 0
    try:
        # sw == 1: workers treat their first cancellation as a request and carry on (they stay *running*)
        pool = SimpleTaskPool(w.worker(0, swallow=(1 if sw == 1 else 0)), pool_size=size)
        it = Interp(w, pool, cbkind=0)
        try:
            if age:
                it.start(age); w.settle()
                for j in range(age):
                    it.release(j)
                w.settle()
                it.flush(True); w.settle()
                if len(w.W) != age or pool._num_started != age:
                    raise Excluded("prologue did not run (size 0)")
            it.start(m1); w.settle()
            _pro(it, p1, b1 + age if (p1 != 3 and b1 >= 0) else b1); w.settle()
            _pro(it, p2, b2 + age if (p2 != 3 and b2 >= 0) else b2); w.settle()
            it.start(m2); w.settle()
            running = sorted((x["id"] for x in w.W if x["state"] == "run"), reverse=True)
            before = [(x["state"], x["cancels"]) for x in w.W]
            left0 = [x["left"] for x in w.W]
            if sa == 1:
                w.op("stop_all")
                exp = list(running)
            else:
                w.op("stop", n)
                k = n if n < len(running) else len(running)
                if k < 0:
                    k = 0
                exp = running[:k]
            try:
                got = pool.stop_all() if sa == 1 else pool.stop(n)
            except Exception:  # noqa: BLE001
                got = None
                code = 1404
            if not code and list(got) != exp:
                code = 1401
            w.settle()
            if not code:
                for j, x in enumerate(w.W):
                    if j >= len(before):
                        continue    # started after the stop (a waiting start() request got the freed room)
                    if x["id"] in exp:
                        want = "run" if left0[j] > 0 else "cancelled"
                        if x["state"] != want or x["cancels"] != before[j][1] + 1:
                            code = 1402
                    elif (x["state"], x["cancels"]) != before[j]:
                        code = 1403
        except Excluded as e:
            w.excluded = str(e)
        code = code or w.err
        if _twin and not code and not w.excluded:
            if len(exp) >= 2 and len(running) > len(exp) and running != list(range(running[0], running[0] - len(running), -1)):  # gaps
                code = 77
        return code
    finally:
        w.close(code)


def families(tier):
    thorough = tier == "thorough"
    mm = 4 if thorough else 3
    P = ["size", "m1", "p1", "b1", "p2", "b2", "m2", "sa", "n", "sw"]
    pre = ["size >= 0", "0 <= m1 <= %d" % mm, "0 <= p1 <= 5", "b1 >= -1", "0 <= p2 <= 5", "b2 >= -1", "0 <= m2 <= 2", "0 <= sa <= 1", "0 <= sw <= 1"]
    if not thorough:
        pre += ["size >= 6", "m1 == 3", "sa == 0 or n == 0", "b1 <= 2", "b2 <= 2", "sw == 0 or (p1 == 3 and p2 == 4)"]
        parts = parts_product(p1=range(5), p2=(0, 1, 4), m2=(0, 2))
    else:
        pre += ["sa == 0 or n == 0", "size >= 3", "m1 >= 3", "b1 <= 3", "b2 <= 3", "sw == 0 or (p1 == 3 and p2 == 4)"]
        parts = parts_product(m1=(3, 4), p1=range(5), p2=(0, 1, 3, 4), m2=(0, 2))
    PA = P[:-1]
    prea = [q for q in pre if "sw" not in q] + ["size >= %d" % AGE]
    partsa = parts_product(p1=(0, 1, 3, 4), p2=(0, 4, 5), m2=(0, 2)) if not thorough else parts_product(m1=(3,), p1=range(6), p2=(0, 1, 4, 5), m2=(0, 2))
    return [Family(name="stop", fn="tpl_stop", params=P, pre=pre, parts=parts,
                   twin_pre=["m1 == 3", "p1 == 0", "p2 == 4", "m2 == 2", "sa == 0"], twin_args=[9, 3, 0, 1, 4, 0, 2, 0, 2, 0]),
            Family(name="stopaged", fn="tpl_stopaged", params=PA, pre=prea, parts=partsa,
                   twin_pre=["m1 == 3", "p1 == 0", "p2 == 4", "m2 == 2", "sa == 0"], twin_args=[9, 3, 0, 1, 4, 0, 2, 0, 2])]
