"""C13 flush forgets finished tasks only."""
from asyncio_taskpool import TaskPool
from asyncio_taskpool.exceptions import InvalidTaskID, PoolException
from engine.prog import Interp, act, drive, parts_product, select
from engine.spec import Family
from engine.world import Excluded, World, task_outcome

ID = "C13"
CLAUSES = {
    1301: "a task whose coroutine is still running is no longer in the running registry (forgotten / not cancellable)",
    1302: "a task still inside its cancel/end callback is no longer known to the pool",
    1303: "flush returned but a task finished before the call is still remembered (counted or known to cancel())",
    1304: "flush(return_exceptions=True) raised or was cancelled",
    1305: "a flush never completed although all work finished",
    1306: "end_callback of a created task was never delivered (task lost in transit)",
    1307: "running tasks not counted: num_running != live workers at idle",
    1308: "flush(return_exceptions=False) raised something that is not a task's own exception",
    77: "reachability twin",
}
FUNCTIONS = ["BaseTaskPool.flush", "BaseTaskPool._pop_ended_meta_tasks", "BaseTaskPool._task_ending", "BaseTaskPool._get_running_task"]

ALPHA = ("cancel", "rel", "fail", "cbrel", "flush", "flushF", "apply1", "nop")
NOP = len(ALPHA) - 1


def tpl_flush(size, cb, n1, x2, a2, x3, a3, x4, a4, x5, a5, t, _twin=False):
    w = World("c13.flush")
    code = 0
    try:
        pool = TaskPool(pool_size=size)
        it = Interp(w, pool, cbkind=cb)
        checked = set()

        def mon():
            for r in w.W:
                if r["state"] == "run" and r["id"] not in pool._tasks_running:
                    w.fail(1301)
            for i in w.incb:
                if i not in pool._tasks_cancelled and i not in pool._tasks_ended:
                    w.fail(1302)
            for k, (f, ret_exc, snap) in enumerate(it.flushes):
                if k in checked or not f.done():
                    continue
                checked.add(k)
                kind, exc = task_outcome(f)
                if kind == "ok":
                    for i in snap["finished"]:
                        if i in pool._tasks_ended or i in pool._tasks_cancelled or i in pool._tasks_running:
                            w.fail(1303)
                        try:
                            pool.cancel(i)
                            w.fail(1303)
                        except InvalidTaskID:
                            pass
                        except PoolException:
                            w.fail(1303)
                elif ret_exc:
                    w.fail(1304)
                elif kind == "cancelled" or not any(exc is r.get("exc") for r in w.W):
                    w.fail(1308)

        def idle():
            mon()
            if w.idle and pool.num_running != w.live:
                w.fail(1307)
        w.monitors.append(mon)
        orig_flush = it.flush

        def flush(ret_exc=True):
            t_ = orig_flush(ret_exc)
            it.flushes[-1][2]["finished"] = [i for i, tk in pool._tasks_ended.items() if tk.done()]
            return t_
        it.flush = flush
        try:
            it.apply(n1)
            drive(w, it, ALPHA, [(NOP, 0), (x2, a2), (x3, a3), (x4, a4), (x5, a5)], t, idle)
        except Excluded as e:
            w.excluded = str(e)
        code = w.err
        if not code and not w.excluded:
            for f, _, _ in it.flushes:
                if not f.done():
                    code = 1305
            if cb and not code:
                for i in range(pool._num_started):
                    if sum(1 for c in w.cb if c[0] == "end" and c[1] == i) != 1:
                        code = 1306
        if _twin and not code and not w.excluded:
            if any(f.done() and s["finished"] for f, _, s in it.flushes) and len(w.W) >= 2:
                code = 77
        return code
    finally:
        w.close(code)


def families(tier):
    thorough = tier == "thorough"
    P = ["size", "cb", "n1", "x2", "a2", "x3", "a3", "x4", "a4", "x5", "a5", "t"]
    base = ["size >= 1", "0 <= cb <= 3", "2 <= n1 <= 3", "0 <= x2 < %d" % NOP, "a2 >= -1", "0 <= x3 < %d" % NOP, "a3 >= -1",
            "0 <= x4 <= %d" % NOP, "a4 >= -1"]
    if not thorough:
        # no early placement in the quick tier (t >= 4: the request has settled before step 2)
        pre = base + ["x5 == %d" % NOP, "a5 == 0", "t >= 4", "x4 == 0 or x4 == 3 or x4 == 4 or x4 == %d" % NOP]
        parts = parts_product(cb=(3,), n1=(2,), x2=range(NOP), x3=range(NOP))
    else:
        pre = base + ["x5 == %d" % NOP, "a5 == 0", "t >= 0", "cb == 3"]
        parts = parts_product(n1=(2, 3), x2=range(NOP), x3=range(NOP))
    return [Family(name="flush", fn="tpl_flush", params=P, pre=pre, parts=parts,
                   twin_pre=["cb == 3", "n1 == 2", "x2 == 1", "x3 == 3", "x4 == 4", "x5 == %d" % NOP],
                   twin_args=[2, 3, 2, 1, 0, 3, 0, 4, 0, NOP, 0, 5])]
