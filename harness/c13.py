"""C13 flush forgets finished tasks only."""
from asyncio_taskpool import TaskPool
from asyncio_taskpool.exceptions import InvalidTaskID, PoolException
from engine.prog import Interp, act, drive, parts_product, refine, select
from engine.spec import Family
from engine.world import Excluded, World, task_outcome

ID = "C13"
CLAUSES = {
    1301: "a task whose coroutine is still running is no longer in the running registry (forgotten / not cancellable)",
    1302: "a task still inside its cancel/end callback is no longer known to the pool",
    1303: "flush returned but a task finished before the call is still remembered (counted or known to cancel())",
    1304: "flush(return_exceptions=True) raised or was cancelled",
    1305: "a flush never completed although all work finished",
    1306: "end_callback of a created task was never delivered (task lost in transit)",
    1307: "running tasks not counted: num_running != live workers at idle",
    1308: "flush(return_exceptions=False) raised something that is not a task's own exception",
    77: "reachability twin",
}
FUNCTIONS = ["BaseTaskPool.flush", "BaseTaskPool._pop_ended_meta_tasks", "BaseTaskPool._task_ending", "BaseTaskPool._get_running_task"]

ALPHA = ("cancel", "rel", "fail", "cbrel", "flush", "flushF", "apply1", "cbcancel", "nop")
NOP = len(ALPHA) - 1


def tpl_flush(size, cb, n1, x2, a2, x3, a3, x4, a4, x5, a5, t, _twin=False):
    return _run(size, cb, n1, [(NOP, 0), (x2, a2), (x3, a3), (x4, a4), (x5, a5)], t, 0, _twin)


def tpl_flushc(x2, a2, x3, a3, x4, a4, _twin=False):
    """Prologue: two tasks, both cancelled and sitting in their slow cancel callbacks; then three symbolic steps
    (a callback may be released or itself be cancelled, flushes with either return_exceptions)."""
    return _run(2, 3, 2, [(NOP, 0), (x2, a2), (x3, a3), (x4, a4)], 9, 1, _twin)


def tpl_flusho(x2, a2, x3, a3, x4, a4, _twin=False):
    """Prologue: task 0 has ended and sits in its slow end callback, a first flush() waits for it; meanwhile task 1
    ended and completed its callbacks.  Then three symbolic steps (typically a second, overlapping flush)."""
    return _run(2, 3, 2, [(NOP, 0), (x2, a2), (x3, a3), (x4, a4)], 9, 2, _twin)


def tpl_flushp(x2, a2, x3, a3, x4, a4, _twin=False):
    """Prologue: task 0 has ended and sits in its slow end callback, a first flush() waits for it; meanwhile task 1 ended
    too and is *still inside* its own slow end callback.  Then three symbolic steps (typically a second flush and the
    release of one of the callbacks): the earlier flush may only forget what it gathered."""
    return _run(2, 3, 2, [(NOP, 0), (x2, a2), (x3, a3), (x4, a4)], 9, 4, _twin)


def tpl_flushq(x2, a2, x3, a3, x4, a4, _twin=False):
    """Prologue with three tasks: task 0 ended (slow end callback), flush A waits for it; task 1 ended (slow callback),
    flush B waits for both; task 0's callback returns, so A has completed and forgotten task 0 while B still waits.
    Then three symbolic steps (typically: task 2 ends, task 1's callback returns): B may only forget what *it* gathered,
    however the registry has shifted meanwhile."""
    return _run(3, 3, 3, [(NOP, 0), (x2, a2), (x3, a3), (x4, a4)], 9, 5, _twin)


def tpl_flushm(size, k, c, x2, a2, x3, a3, x4, a4, _twin=False):
    """Prologue: a map over three elements whose argument iterable breaks when asked for element k - its meta task has
    *failed* (not been cancelled) by the time of the flushes.  flush(return_exceptions=True) must still never raise and
    must forget exactly the finished tasks; flush(False) may pass the iterable's own exception on."""
    return _run(size, 3, k, [(NOP, 0), (x2, a2), (x3, a3), (x4, a4)], 9, 3, _twin, c)


def _run(size, cb, n1, steps, t, pro, _twin, conc=1):
    w = World("c13.flush")
    code = 0
    try:
        pool = TaskPool(pool_size=size)
        it = Interp(w, pool, cbkind=cb)
        checked = set()

        def mon():
            for r in w.W:
                if r["state"] == "run" and r["id"] not in pool._tasks_running:
                    w.fail(1301)
            for i in w.incb:
                if i not in pool._tasks_cancelled and i not in pool._tasks_ended:
                    w.fail(1302)
            for k, (f, ret_exc, snap) in enumerate(it.flushes):
                if k in checked or not f.done():
                    continue
                checked.add(k)
                kind, exc = task_outcome(f)
                if kind == "ok":
                    for i in snap["finished"]:
                        if i in pool._tasks_ended or i in pool._tasks_cancelled or i in pool._tasks_running:
                            w.fail(1303)
                        try:
                            pool.cancel(i)
                            w.fail(1303)
                        except InvalidTaskID:
                            pass
                        except PoolException:
                            w.fail(1303)
                elif ret_exc:
                    w.fail(1304)
                elif kind == "cancelled":
                    # flush(False) passes on the CancelledError of a gathered task that finished cancelled
                    # (a CancelledError escaped one of its callbacks); it has then not returned and forgets nothing
                    if not any(r["task"].done() and r["task"].cancelled() for r in w.W):
                        w.fail(1308)
                elif not any(exc is r.get("exc") for r in w.W) and not any(exc is r.get("iter_exc") for r in it.reqs):
                    w.fail(1308)

        def idle():
            mon()
            if w.idle and pool.num_running != w.live:
                w.fail(1307)
        w.monitors.append(mon)
        orig_flush = it.flush

        def flush(ret_exc=True):
            t_ = orig_flush(ret_exc)
            it.flushes[-1][2]["finished"] = [i for i, tk in pool._tasks_ended.items() if tk.done()]
            return t_
        it.flush = flush
        try:
            if pro == 3:
                it.map(3, conc, iterfail=n1)
            else:
                it.apply(n1)
            if pro == 1:
                w.settle()
                it.cancel(0)
                it.cancel(1)
                w.settle()
            elif pro == 5:
                w.settle()
                it.release(0); w.settle()
                it.flush(True); w.settle()
                it.release(1); w.settle()
                it.flush(True); w.settle()
                it.cb_release(0); w.settle()
            elif pro == 2 or pro == 4:
                w.settle()
                it.release(0); w.settle()
                it.flush(True); w.settle()
                it.release(1); w.settle()
                if pro == 2:
                    it.cb_release(1); w.settle()
            drive(w, it, ALPHA, steps, t, idle)
        except Excluded as e:
            w.excluded = str(e)
        code = w.err
        if not code and not w.excluded:
            for f, _, _ in it.flushes:
                if not f.done():
                    code = 1305
            if cb and not code:
                for i in range(pool._num_started):
                    if sum(1 for c in w.cb if c[0] == "end" and c[1] == i) != 1:
                        code = 1306
        if _twin and not code and not w.excluded:
            if pro == 3:
                if any(f.done() and s["finished"] for f, _, s in it.flushes) and any(r.get("iter_raised") for r in it.reqs):
                    code = 77
            elif pro == 5:
                if len(it.flushes) >= 2 and all(f.done() for f, _, _ in it.flushes) and len(w.W) == 3 and not w.live:
                    code = 77
            elif pro == 4:
                if len(it.flushes) >= 2 and all(f.done() for f, _, _ in it.flushes) and not pool.num_ended:
                    code = 77
            elif any(f.done() and s["finished"] for f, _, s in it.flushes) and len(w.W) >= 2:
                code = 77
        return code
    finally:
        w.close(code)


def families(tier):
    thorough = tier == "thorough"
    P = ["size", "cb", "n1", "x2", "a2", "x3", "a3", "x4", "a4", "x5", "a5", "t"]
    base = ["size >= 1", "0 <= cb <= 3", "2 <= n1 <= 3", "0 <= x2 < %d" % NOP, "a2 >= -1", "0 <= x3 < %d" % NOP, "a3 >= -1",
            "0 <= x4 <= %d" % NOP, "a4 >= -1"]
    if not thorough:
        # no early placement in the quick tier (t >= 4: the request has settled before step 2)
        pre = base + ["x5 == %d" % NOP, "a5 == 0", "t >= 4", "x4 == 0 or x4 == 3 or x4 == 4 or x4 == %d" % NOP]
        parts = parts_product(cb=(3,), n1=(2,), x2=range(NOP), x3=range(NOP))
        heavy = [p for p in parts if any(("x2 == %d" % a) in p for a in (0, 1, 2)) and any(("x3 == %d" % b) in p for b in (0, 1, 2))]
        parts = [p for p in parts if p not in heavy] + [p + ["x4 == %d" % v] for p in heavy for v in (0, 3, 4, NOP)]
    else:
        # sized to finish inside the wall budget
        pre = base + ["x5 == %d" % NOP, "a5 == 0", "t == 0 or t >= 4", "cb == 3", "size <= 3", "a2 <= 2", "a3 <= 2", "a4 <= 1", "n1 == 2 or x4 == %d" % NOP]
        parts = parts_product(n1=(2, 3), x2=range(NOP), x3=range(NOP))
    PC = ["x2", "a2", "x3", "a3", "x4", "a4"]
    if not thorough:
        prec = ["x2 == 3 or x2 == 4 or x2 == 5 or x2 == 7", "0 <= a2 <= 1", "3 <= x3 <= 5 or x3 == 7 or x3 == 1", "0 <= a3 <= 1",
                "x4 == 3 or x4 == 4 or x4 == %d" % NOP, "0 <= a4 <= 1"]
        partsc = parts_product(x2=(3, 4, 5, 7))
    else:
        prec = ["0 <= x2 < %d" % NOP, "-1 <= a2 <= 2", "0 <= x3 < %d" % NOP, "-1 <= a3 <= 2", "0 <= x4 <= %d" % NOP, "-1 <= a4 <= 2"]
        partsc = parts_product(x2=range(NOP), x3=range(NOP))
    famc = Family(name="flushc", fn="tpl_flushc", params=PC, pre=prec, parts=partsc,
                  twin_pre=["x2 == 3", "x3 == 3", "x4 == 4", "a3 == 1"], twin_args=[3, 0, 3, 1, 4, 0])
    famo = Family(name="flusho", fn="tpl_flusho", params=PC,
                  pre=(["3 <= x2 <= 5 or x2 == %d" % NOP, "0 <= a2 <= 1", "3 <= x3 <= 5 or x3 == %d" % NOP, "0 <= a3 <= 1", "x4 == %d" % NOP, "a4 == 0"]
                       if not thorough else
                       ["0 <= x2 <= %d" % NOP, "-1 <= a2 <= 2", "0 <= x3 <= %d" % NOP, "-1 <= a3 <= 2", "0 <= x4 <= %d" % NOP, "-1 <= a4 <= 2"]),
                  parts=parts_product(x2=(3, 4, 5, NOP)) if not thorough else parts_product(x2=range(NOP + 1), x3=range(NOP + 1)),
                  twin_pre=["x2 == 4"], twin_args=[4, 0, NOP, 0, NOP, 0])
    famp = Family(name="flushp", fn="tpl_flushp", params=PC,
                  pre=(["3 <= x2 <= 5 or x2 == %d" % NOP, "0 <= a2 <= 1", "3 <= x3 <= 5 or x3 == %d" % NOP, "0 <= a3 <= 1",
                        "3 <= x4 <= 5 or x4 == %d" % NOP, "0 <= a4 <= 1"]
                       if not thorough else
                       ["0 <= x2 <= %d" % NOP, "-1 <= a2 <= 2", "0 <= x3 <= %d" % NOP, "-1 <= a3 <= 2", "0 <= x4 <= %d" % NOP, "-1 <= a4 <= 2"]),
                  parts=parts_product(x2=(3, 4, 5, NOP)) if not thorough else parts_product(x2=range(NOP + 1), x3=range(NOP + 1)),
                  twin_pre=["x2 == 4", "x3 == 3"], twin_args=[4, 0, 3, 0, NOP, 0])
    famq = Family(name="flushq", fn="tpl_flushq", params=PC,
                  pre=(["x2 == 1 or 3 <= x2 <= 5 or x2 == %d" % NOP, "0 <= a2 <= 2", "x3 == 1 or 3 <= x3 <= 5 or x3 == %d" % NOP, "0 <= a3 <= 2",
                        "3 <= x4 <= 4 or x4 == %d" % NOP, "0 <= a4 <= 1"]
                       if not thorough else
                       ["0 <= x2 <= %d" % NOP, "-1 <= a2 <= 2", "0 <= x3 <= %d" % NOP, "-1 <= a3 <= 2", "0 <= x4 <= %d" % NOP, "-1 <= a4 <= 2"]),
                  parts=parts_product(x2=(1, 3, 4, 5, NOP)) if not thorough else parts_product(x2=range(NOP + 1), x3=range(NOP + 1)),
                  twin_pre=["x2 == 1", "x3 == 3"], twin_args=[1, 2, 3, 0, NOP, 0])
    PM = ["size", "k", "c", "x2", "a2", "x3", "a3", "x4", "a4"]
    prem = ["size >= 1", "1 <= k <= 2", "1 <= c <= 2", "0 <= x2 < %d" % NOP, "0 <= x3 <= %d" % NOP, "0 <= x4 <= %d" % NOP]
    if not thorough:
        prem += ["size <= 3", "-1 <= a2 <= 1", "-1 <= a3 <= 1", "a4 == 0", "x3 == 1 or x3 == 3 or x3 == 4 or x3 == 5", "x4 == 4 or x4 == %d" % NOP]
        partsm = parts_product(k=(1, 2), x2=(0, 1, 2, 4, 5))
    else:
        prem += ["size <= 3", "-1 <= a2 <= 1", "-1 <= a3 <= 1", "-1 <= a4 <= 1"]
        partsm = parts_product(k=(1, 2), x2=range(NOP), x3=range(NOP + 1))
    famm = Family(name="flushm", fn="tpl_flushm", params=PM, pre=prem, parts=partsm,
                  twin_pre=["k == 1", "c == 1", "x2 == 1", "x3 == 3", "x4 == 4"], twin_args=[2, 1, 1, 1, 0, 3, 0, 4, 0])
    return [famc, famo, famp, famq, famm, Family(name="flush", fn="tpl_flush", params=P, pre=pre, parts=parts,
                   twin_pre=["cb == 3", "n1 == 2", "x2 == 1", "x3 == 3", "x4 == 4", "x5 == %d" % NOP],
                   twin_args=[2, 3, 2, 1, 0, 3, 0, 4, 0, NOP, 0, 5])]
