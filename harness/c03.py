"""C03 Task lifecycle and callbacks are exact and ordered."""
from asyncio_taskpool import TaskPool
from engine.prog import Interp, act, drive, parts_product, refine, select, site_of
from engine.spec import Family
from engine.world import Excluded, HarnessError, World

ID = "C03"
CLAUSES = {
    301: "num_running + num_cancelled + num_ended != tasks created (nothing was flushed)",
    302: "a task is in more than one / in none of running, cancelled, ended",
    303: "a task moved other than running->ended or running->cancelled->ended",
    304: "a task that is not finished is known to none of the registries (forgotten while running or inside its callbacks)",
    305: "a forgotten (flushed) task reappeared in a registry",
    310: "end_callback did not run exactly once for a task",
    311: "task did not count as ended when its end_callback ran",
    312: "cancel_callback count wrong: must be 1 iff the coroutine ended by cancellation",
    313: "task did not count as cancelled when its cancel_callback ran",
    314: "cancel_callback ran after the end_callback",
    315: "a worker observed more than one CancelledError",
    316: "coroutine end_callback not run to completion",
    317: "coroutine cancel_callback not run to completion",
    318: "end_callback ran before the coroutine finished",
    319: "callback received an id that is not a created task id",
    320: "after all work finished tasks still count as running/cancelled",
    77: "reachability twin",
}
FUNCTIONS = ["BaseTaskPool._task_wrapper", "BaseTaskPool._task_ending", "BaseTaskPool._task_cancellation",
             "helpers.execute_optional", "BaseTaskPool.cancel", "BaseTaskPool.cancel_group", "BaseTaskPool.cancel_all"]

ALPHA = ("apply", "rel", "fail", "cancel", "cancel2", "cgroup", "call", "cbrel", "nop")
NOP = len(ALPHA) - 1


def tpl_life(size, cb, n1, x2, a2, x3, a3, x4, a4, t, _twin=False):
    return _life(size, cb, n1, x2, a2, 0, x3, a3, x4, a4, t, _twin)


def tpl_lifesite(size, cb, n1, x2, a2, s2, x3, a3, t, _twin=False):
    """Step 2 is issued from inside user code the pool runs: next worker start (1), end callback (2), cancel callback (3)."""
    return _life(size, cb, n1, x2, a2, s2, x3, a3, NOP, 0, t, _twin)


def tpl_lifei(size, cb, n1, i0, i1, i2, x2, a2, t, _twin=False):
    """The first three workers to start may finish inside their very first step (0 = block on the gate, 1 = return at
    once, 2 = raise at once): the whole running -> ended walk, with both callbacks' rules, for a task never suspended."""
    return _life(size, cb, n1, x2, a2, 0, NOP, 0, NOP, 0, t, _twin, [i0, i1, i2])


def _life(size, cb, n1, x2, a2, s2, x3, a3, x4, a4, t, _twin, instant=()):
    w = World("c03.lifei" if instant else "c03.life")
    w.instant = list(instant)
    code = 0
    try:
        pool = TaskPool(pool_size=size)
        it = Interp(w, pool, cbkind=cb)
        last = {}

        def mon():
            if pool.num_running + pool.num_cancelled + pool.num_ended != pool._num_started:
                w.fail(301)
            for i in range(pool._num_started):
                r, c, e = i in pool._tasks_running, i in pool._tasks_cancelled, i in pool._tasks_ended
                if r + c + e != 1:
                    w.fail(302)
                st = "R" if r else ("C" if c else "E")
                old = last.get(i, "R")
                if old != st and not ((old == "R" and st in "CE") or (old == "C" and st == "E")):
                    w.fail(303)
                last[i] = st
        w.monitors.append(mon)
        try:
            it.apply(n1)
            drive(w, it, ALPHA, [(NOP, 0), (x2, a2), (x3, a3), (x4, a4)], t, mon, site_of(s2))
        except Excluded as e:
            w.excluded = str(e)
        code = w.err
        if not code and not w.excluded:
            code = _final(w, pool, cb)
        if _twin and not code and not w.excluded:
            if instant:
                if sum(1 for r in w.W if r.get("instant")) >= 2 and len(w.W) >= 3:
                    code = 77
            elif any(c[0] == "cancel" for c in w.cb) and any(c[0] == "end" for c in w.cb) and len(w.W) >= 2 \
                    and (s2 == 0 or not w.armed.get(site_of(s2))):
                code = 77
        return code
    finally:
        w.close(code)


ALPHA_F = ("apply", "rel", "fail", "cancel", "cgroup", "call", "cbrel", "flush", "flushF", "nop")
NOPF = len(ALPHA_F) - 1


def tpl_lifeflush(size, cb, n1, x2, a2, x3, a3, x4, a4, t, _twin=False):
    """Same lifecycle clauses with flush() in the alphabet: 'created minus forgotten' - a task may only be
    forgotten once it is finished, and never comes back."""
    w = World("c03.lifeflush")
    code = 0
    try:
        pool = TaskPool(pool_size=size)
        it = Interp(w, pool, cbkind=cb)
        last = {}

        def mon():
            for i in range(pool._num_started):
                r, c, e = i in pool._tasks_running, i in pool._tasks_cancelled, i in pool._tasks_ended
                if r + c + e > 1:
                    w.fail(302)
                st = "R" if r else ("C" if c else ("E" if e else "F"))
                old = last.get(i, "R")
                if st == "F":
                    for x in w.W:
                        if x["id"] == i and not x["task"].done():
                            w.fail(304)
                    if not any(x["id"] == i for x in w.W):
                        w.fail(304)
                elif old == "F":
                    w.fail(305)
                if old != st and st != "F" and not ((old == "R" and st in "CE") or (old == "C" and st == "E")):
                    w.fail(303)
                last[i] = st
        w.monitors.append(mon)
        try:
            it.apply(n1)
            drive(w, it, ALPHA_F, [(NOPF, 0), (x2, a2), (x3, a3), (x4, a4)], t, mon)
        except Excluded as e:
            w.excluded = str(e)
        code = w.err
        if not code and not w.excluded:
            code = _final(w, pool, cb)
        if _twin and not code and not w.excluded:
            if it.flushes and any(c[0] == "cancel" for c in w.cb) and any(v == "F" for v in last.values()):
                code = 77
        return code
    finally:
        w.close(code)


def _final(w, pool, cb):
    created = pool._num_started
    if pool.num_running or pool.num_cancelled:
        return 320
    if not cb:
        return 0
    for c in w.cb:
        if not (0 <= c[1] < created):
            return 319
    for i in range(created):
        ends = [k for k, c in enumerate(w.cb) if c[0] == "end" and c[1] == i]
        cans = [k for k, c in enumerate(w.cb) if c[0] == "cancel" and c[1] == i]
        recs = [r for r in w.W if r["id"] == i]
        if len(ends) != 1:
            return 310
        if not w.cb[ends[0]][4]:
            return 311
        if recs:
            was_cancelled = recs[0]["state"] == "cancelled"
            if recs[0]["cancels"] > 1:
                return 315
            if "finished_at" not in recs[0] or recs[0]["finished_at"] > ends[0]:
                return 318
        else:
            was_cancelled = True  # a task whose coroutine never began can only have been cancelled
        if len(cans) != (1 if was_cancelled else 0):
            return 312
        if cans and not w.cb[cans[0]][3]:
            return 313
        if cans and cans[0] > ends[0]:
            return 314
        if not any(c[0] == "end-done" and c[1] == i for c in w.cb):
            return 316
        if cans and not any(c[0] == "cancel-done" and c[1] == i for c in w.cb):
            return 317
    return 0


def families(tier):
    thorough = tier == "thorough"
    P = ["size", "cb", "n1", "x2", "a2", "x3", "a3", "x4", "a4", "t"]
    base = ["size >= 0", "0 <= cb <= 5", "1 <= n1 <= 3", "0 <= x2 < %d" % NOP, "a2 >= -1", "t >= 0"]
    if not thorough:
        pre = base + ["0 <= x3 < %d" % NOP, "a3 >= -1", "x4 == %d" % NOP, "a4 == 0"]
        parts = parts_product(cb=range(4), n1=(2,), x2=range(NOP), x3=(1, 3, 6, 7)) + \
            parts_product(cb=(4, 5), n1=(2,), x2=(1, 3, 6), x3=(1, 3))
        heavy = [p for p in parts if "x2 == 0" in p]
        parts = [p for p in parts if p not in heavy] + [p + [q] for p in heavy for q in ("a2 <= 0", "a2 == 1", "a2 >= 2")]
    else:
        pre = base + ["0 <= x3 <= %d" % NOP, "a3 >= -1", "x4 == %d" % NOP, "a4 == 0"]
        parts = refine(parts_product(cb=range(6), n1=(2, 3), x2=range(NOP)), ["x2 == 0"], "x3", range(NOP + 1))
    fams = [Family(name="life", fn="tpl_life", params=P, pre=pre, parts=parts,
                   twin_pre=["cb == 1", "n1 == 2", "x2 == 3", "x3 == 1", "x4 == %d" % NOP],
                   twin_args=[2, 1, 2, 3, 0, 1, 1, NOP, 0, 5])]
    PS = ["size", "cb", "n1", "x2", "a2", "s2", "x3", "a3", "t"]
    pres = ["size >= 0", "1 <= cb <= 3", "n1 == 2", "0 <= x2 < %d" % NOP, "a2 >= -1", "1 <= s2 <= 3", "0 <= x3 < %d" % NOP, "a3 >= -1", "t >= 0"]
    if not thorough:
        pres += ["cb == 3", "size >= 2", "t >= 4", "3 <= x2 <= 7", "x3 == 1 or x3 == 3", "a2 <= 1", "a3 <= 1"]
        partss = parts_product(s2=(1, 2, 3), x3=(1, 3))
    else:
        pres += ["cb == 1 or cb == 3", "a2 <= 2", "a3 <= 2", "x3 == 1 or x3 == 3 or x3 == 6"]
        partss = parts_product(cb=(1, 3), s2=(1, 2, 3), x2=range(NOP))
    fams.append(Family(name="lifesite", fn="tpl_lifesite", params=PS, pre=pres, parts=partss,
                       twin_pre=["cb == 3", "s2 == 2", "x2 == 3", "x3 == 1"], twin_args=[2, 3, 2, 3, 1, 2, 1, 0, 5]))
    basef = ["size >= 0", "2 <= cb <= 3", "n1 == 2", "0 <= x2 < %d" % NOPF, "a2 >= -1", "0 <= x3 <= %d" % NOPF, "a3 >= -1", "t >= 0"]
    if not thorough:
        pref = basef + ["x4 == %d or (x2 == 2 and x3 == 3 and x4 == 8)" % NOPF, "a4 == 0", "cb == 3", "t >= 4", "x3 == 1 or x3 == 3 or x3 == 6 or x3 == 7 or x3 == 8"]
        partsf = parts_product(x2=range(NOPF))
    else:
        pref = basef + ["x4 == 6 or x4 == 7 or x4 == 8 or x4 == %d" % NOPF, "a4 >= -1", "a4 <= 1", "cb == 3"]
        partsf = parts_product(x2=range(NOPF), x3=range(NOPF + 1))
    fams.append(Family(name="lifeflush", fn="tpl_lifeflush", params=P, pre=pref, parts=partsf,
                       twin_pre=["x2 == 3", "x3 == 7"], twin_args=[2, 3, 2, 3, 0, 7, 0, NOPF, 0, 5]))
    PI = ["size", "cb", "n1", "i0", "i1", "i2", "x2", "a2", "t"]
    prei = ["size >= 0", "0 <= cb <= 4", "1 <= n1 <= 3", "0 <= i0 <= 2", "0 <= i1 <= 2", "0 <= i2 <= 2", "i0 + i1 + i2 > 0",
            "0 <= x2 <= %d" % NOP, "a2 >= -1", "t >= 0"]
    if not thorough:
        prei += ["size <= 3", "1 <= cb <= 3", "n1 == 3", "t >= 4", "a2 <= 1", "x2 == 0 or x2 == 3 or x2 == 6 or x2 == %d" % NOP]
        partsi = parts_product(cb=(1, 3), i0=range(3), i1=range(3))
    else:
        prei += ["size <= 3", "a2 <= 2", "t == 0 or t >= 4"]
        partsi = parts_product(cb=(1, 3), n1=(2, 3), i0=range(3), i1=range(3))
    fams.append(Family(name="lifei", fn="tpl_lifei", params=PI, pre=prei, parts=partsi,
                       twin_pre=["cb == 3", "n1 == 3", "i0 == 1", "i1 == 2", "x2 == %d" % NOP],
                       twin_args=[3, 3, 3, 1, 2, 0, NOP, 0, 5]))
    return fams
