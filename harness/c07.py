"""C07 Group and global cancellation are complete and contained."""
from asyncio_taskpool import TaskPool
from asyncio_taskpool.exceptions import InvalidGroupName, PoolException
from engine.prog import Interp, site_of
from engine.spec import Family
from engine.world import Excluded, HarnessError, World
from engine.prog import parts_product

ID = "C07"
CLAUSES = {
    701: "a task of the cancelled group started after the cancellation",
    702: "the cancelled group's argument iterable was advanced after the cancellation",
    703: "a started, unfinished task of the cancelled group did not observe (exactly one) cancellation",
    704: "the cancelled group is still reported by get_group_ids()",
    705: "the cancelled group's name is not free for a new request",
    706: "a sibling group's request did not complete all its invocations / a sibling task was cancelled",
    707: "cancel_group(unknown) did not raise InvalidGroupName",
    708: "cancel_group(unknown) changed the pool",
    709: "cancel_all() left a group known to the pool",
    710: "the real cancel_group()/cancel_all() raised",
    77: "reachability twin",
}
FUNCTIONS = ["BaseTaskPool.cancel_group", "BaseTaskPool.cancel_all", "BaseTaskPool._cancel_and_remove_all_from_group",
             "BaseTaskPool._cancel_group_meta_tasks", "TaskPool._apply_spawner", "TaskPool._arg_consumer", "BaseTaskPool._start_task"]


def _snapshot(w, pool):
    return (pool.num_running, pool.num_cancelled, pool.num_ended, sorted(pool._task_groups),
            [(r["state"], r["cancels"]) for r in w.W], w.live)


def tpl_group(size, kb, conc, who, s, o1, a1, o3, a3, settle0, t, order, re=0, _twin=False):
    """who: 0 cancel_group(B), 1 cancel_all().  s: placement (0 boundary, 1 next worker start, 2 next end
    callback, 3 next cancel callback).  settle0: 1 = the requests settle first and step 1 (release/cancel one
    task) precedes the early placement t; 0 = the cancellation lands t iterations after the requests."""
    w = World("c07.group")
    code = 0
    done = {"err": None, "did": False}
    try:
        pool = TaskPool(pool_size=size)
        it = Interp(w, pool, cbkind=1)
        try:
            ra = None
            if order == 0:
                ra = it.apply(2)
            if kb == 0:
                rb = it.apply(3, group="B")
            elif kb == 1:
                rb = it.map(3, conc, stars=0, group="B")
            elif kb == 3:
                rb = it.map(3, conc, stars=0, group="B", iterfail=2)     # the iterable raises after two elements
            else:
                rb = it.map(3, conc, stars=1, group="B")
            if ra is None:
                ra = it.apply(2)
            if settle0 == 1:
                w.settle()
                if o1 == 1:
                    it.release(a1)
                elif o1 == 2:
                    it.cancel(a1)
                elif o1 == 3:
                    it.flush(True)
                    w.settle()
            w.ticks(t)
            # unknown name: must raise and change nothing
            before = _snapshot(w, pool)
            try:
                pool.cancel_group("no-such-group")
                code = 707
            except InvalidGroupName:
                pass
            if not code and _snapshot(w, pool) != before:
                code = 708

            def do():
                done["did"] = True
                try:
                    if who == 0:
                        w.op("cgroupB")
                        e = w.do_cancel_group(pool, "B")
                        if e is not None:
                            done["err"] = e
                        else:
                            it._mark_cancelled(rb)
                    else:
                        it.cancel_all()
                except (Excluded, HarnessError):
                    raise
                except Exception as e:  # noqa: BLE001 - anything but a pool error leaving the call is clause 710
                    done["err"] = e
                    it._mark_cancelled(rb)
                rb["unfinished"] = [x["wid"] for x in it.workers_of(rb) if x["state"] == "run"]
                ra["unfinished"] = [x["wid"] for x in it.workers_of(ra) if x["state"] == "run"]
            site = site_of(s)
            rb2 = None
            if site is None:
                do()
                if re == 1 and who == 0 and done["err"] is None:
                    # the freed name is requested again in the same tick ...
                    rb2 = it.map(3, conc, stars=0, group="B")
            else:
                w.op("arm", site)
                w.arm(site, do)
            if o3 == 1:
                it.release(a3)
            elif o3 == 2:
                it.cancel(a3)
            w.settle()
            if w.excluded:
                raise Excluded(w.excluded)
            if rb2 is not None:
                # ... and that second incarnation is cancelled later: the same guarantees hold for it
                w.op("cgroupB-again")
                e2 = w.do_cancel_group(pool, "B")
                if e2 is not None:
                    done["err"] = e2
                else:
                    it._mark_cancelled(rb2)
                    rb2["unfinished"] = [x["wid"] for x in it.workers_of(rb2) if x["state"] == "run"]
                done["rb2"] = rb2
            w.drain()
            if w.excluded:
                raise Excluded(w.excluded)
        except Excluded as e:
            w.excluded = str(e)
        code = code or w.err
        if not code and not w.excluded and done["did"]:
            code = _final(w, it, pool, size, who, ra, rb, done)
        if _twin and not code and not w.excluded and done["did"]:
            if rb.get("unfinished") and rb["started_at_cancel"] < 3 and len(it.workers_of(ra)) == 2:
                code = 77
        return code
    finally:
        w.close(code)


def _final(w, it, pool, size, who, ra, rb, done):
    if done["err"] is not None:
        return 710
    cancelled = [rb] if who == 0 else [ra, rb]
    if done.get("rb2") is not None and done["rb2"]["cancelled"]:
        cancelled = [rb, done["rb2"]]
    for r in cancelled:
        ws = it.workers_of(r)
        if len(ws) != r["started_at_cancel"]:
            return 701
        if r["pulled"] != r["pulled_at_cancel"] or r.get("advanced_after_cancel"):
            return 702
        for x in ws:
            if x["wid"] in r["unfinished"]:
                if x["state"] != "cancelled" or x["cancels"] != 1:
                    return 703
        try:
            pool.get_group_ids(r["group"])
            return 704
        except InvalidGroupName:
            pass
    if who == 1 and pool._task_groups:
        return 709
    if who == 0:
        # the sibling: untouched, keeps progressing to completion (it needs room: size >= 1)
        ws = it.workers_of(ra)
        if size >= 1 and len(ws) != 2:
            return 706
        for x in ws:
            if x["state"] == "cancelled" and not any(i == x["id"] for i in it.cancel_ids):
                return 706
        try:
            if pool.get_group_ids(ra["group"]) != {x["id"] for x in ws} and size >= 1:
                return 706
        except PoolException:
            return 706
    try:
        pool.apply(w.worker(50), num=0, group_name="B")
    except PoolException:
        return 705
    return 0


def tpl_sgroup(size, who, o1, a1, o3, a3, settle0, t, _twin=False):
    """SimpleTaskPool: group 'start-group-0' = start(3) is cancelled (cancel_group / cancel_all) t iterations after the
    request, or after it settled and one task was released/cancelled; a second start(2) is the sibling."""
    from asyncio_taskpool import SimpleTaskPool
    w = World("c07.sgroup")
    code = 0
    try:
        pool = SimpleTaskPool(w.worker(0), pool_size=size)
        it = Interp(w, pool, cbkind=0)
        did = False
        try:
            rb = it.start(3)
            ra = it.start(2)
            if settle0 == 1:
                w.settle()
                if o1 == 1:
                    it.release(a1)
                elif o1 == 2:
                    it.cancel(a1)
            w.ticks(t)
            ids_b = set(pool.get_group_ids(rb["group"]))
            started_b = [x for x in w.W if x["id"] in ids_b]
            nstarted = len(w.W)
            if who == 0:
                w.op("cgroup", rb["group"])
                e = w.do_cancel_group(pool, rb["group"])
                if e is not None:
                    code = 710
                it._mark_cancelled(rb)
            else:
                it.cancel_all()
            did = True
            unfinished = [x["wid"] for x in started_b if x["state"] == "run"]
            if o3 == 1:
                it.release(a3)
            elif o3 == 2:
                it.cancel(a3)
            w.settle()
            w.drain()
        except Excluded as e:
            w.excluded = str(e)
        code = code or w.err
        if not code and not w.excluded and did:
            # ids are handed out in creation order: a task created after the cancellation has a new id; every such
            # task must belong to the sibling group (who == 0) or must not exist at all (cancel_all)
            later = [x for x in w.W[nstarted:]]
            if who == 1 and later:
                code = 701
            for x in later:
                if who == 0:
                    try:
                        if x["id"] not in pool.get_group_ids(ra["group"]):
                            code = 701
                    except PoolException:
                        code = 706
            for x in w.W:
                if x["wid"] in unfinished and (x["state"] != "cancelled" or x["cancels"] != 1):
                    code = code or 703
            try:
                pool.get_group_ids(rb["group"])
                code = code or 704
            except InvalidGroupName:
                pass
            if who == 1 and pool._task_groups:
                code = code or 709
            if who == 0 and size >= 1 and not code:
                if len(pool.get_group_ids(ra["group"])) != 2:
                    code = 706
        if _twin and not code and not w.excluded and did and unfinished and len(started_b) < 3:
            code = 77
        return code
    finally:
        w.close(code)


def families(tier):
    thorough = tier == "thorough"
    P = ["size", "kb", "conc", "who", "s", "o1", "a1", "o3", "a3", "settle0", "t", "order", "re"]
    pre = ["size >= 0", "0 <= kb <= 3", "1 <= conc <= 3", "0 <= who <= 1", "0 <= s <= 3", "0 <= o1 <= 3", "a1 >= 0",
           "0 <= o3 <= 2", "a3 >= 0", "0 <= settle0 <= 1", "t >= 0", "0 <= order <= 1", "0 <= re <= 1", "re == 0 or (s == 0 and who == 0)", "settle0 == 1 or o1 == 0", "kb >= 1 or conc == 1"]
    if not thorough:
        pre += ["kb <= 1 or kb == 3", "kb == 0 or conc == 2", "1 <= size <= 3", "s == 0 or o3 >= 1", "s == 0 or settle0 == 1", "o1 <= 1 or o1 == 3",
                "settle0 == 0 or order == 0", "a1 <= 2", "a3 <= 2", "s == 0 or who == 0", "o1 != 3 or s == 0"]
        parts = [["kb == 3", "who == %d" % who_, "settle0 == 1", "s == 0", "o1 == %d" % o_, "re == %d" % r_]
                 for who_ in (0, 1) for o_ in (0, 1) for r_ in (0, 1) if not (r_ and who_)]
        for kb in (0, 1):
            for who in (0, 1):
                for order in (0, 1):
                    parts.append(["kb == %d" % kb, "who == %d" % who, "settle0 == 0", "s == 0", "order == %d" % order])
                for s_ in range(4):
                    if s_ and who:
                        continue
                    base = ["kb == %d" % kb, "who == %d" % who, "settle0 == 1", "s == %d" % s_]
                    parts.append(base + ["o1 == 0"])
                    parts += [base + ["o1 == 1", "a1 == %d" % a] for a in range(3)]
                    if s_ == 0:
                        parts.append(base + ["o1 == 3"])
    else:
        pre += ["conc <= 2", "size <= 4", "s == 0 or o3 >= 1", "s == 0 or settle0 == 1", "settle0 == 0 or order == 0", "a1 <= 3", "a3 <= 3"]
        parts = []
        for kb in (0, 1, 2, 3):
            for who in (0, 1):
                for order in (0, 1):
                    parts.append(["kb == %d" % kb, "who == %d" % who, "settle0 == 0", "s == 0", "order == %d" % order])
                for s_ in range(4):
                    base = ["kb == %d" % kb, "who == %d" % who, "settle0 == 1", "s == %d" % s_]
                    parts += [base + ["o1 == %d" % o] for o in range(4)]
    PS = ["size", "who", "o1", "a1", "o3", "a3", "settle0", "t"]
    pres = ["size >= 0", "0 <= who <= 1", "0 <= o1 <= 2", "a1 >= 0", "0 <= o3 <= 2", "a3 >= 0", "0 <= settle0 <= 1", "t >= 0",
            "settle0 == 1 or o1 == 0"] + (["size <= 3", "a1 <= 2", "a3 <= 2", "o3 <= 1"] if not thorough else ["size <= 5", "a1 <= 4", "a3 <= 4"])
    sfam = Family(name="sgroup", fn="tpl_sgroup", params=PS, pre=pres,
                  parts=parts_product(who=(0, 1), settle0=(0, 1), o3=(0, 1) if not thorough else (0, 1, 2)),
                  twin_pre=["who == 0", "settle0 == 1", "o3 == 0", "o1 == 0"], twin_args=[2, 0, 0, 0, 0, 0, 1, 9])
    return [sfam, Family(name="group", fn="tpl_group", params=P, pre=pre, parts=parts,
                   twin_pre=["kb == 1", "who == 0", "s == 0", "settle0 == 1", "o1 == 0", "o3 == 0", "conc == 2"],
                   twin_args=[3, 1, 2, 0, 0, 0, 0, 0, 0, 1, 9, 0, 0])]
