"""C05 map family: element-wise, ordered, bounded, lazy, work-conserving."""
from asyncio_taskpool import TaskPool
from engine.prog import Interp, act, drive, parts_product, refine, select
from engine.spec import Family
from engine.world import Excluded, World

ID = "C05"
CLAUSES = {
    501: "more than num_concurrent tasks of one map call running at once",
    502: "more than one element pulled beyond those turned into tasks or skipped",
    503: "idle, elements remain, pool has room, but fewer than num_concurrent tasks of the call are running",
    504: "arguments received differ from the iterable's elements (order, unpacking, skipped/repeated element)",
    505: "not every element was consumed although all work finished",
    77: "reachability twin",
}
FUNCTIONS = ["TaskPool._map", "TaskPool._arg_consumer", "TaskPool._get_map_end_callback", "helpers.star_function",
             "TaskPool.map", "TaskPool.starmap", "TaskPool.doublestarmap"]

ALPHA = ("rel", "fail", "cancel", "apply1", "selfret", "nop")
NOP = len(ALPHA) - 1


def _expected(r):
    out = []
    for j, itm in enumerate(r["items"]):
        if j == r["bad"]:
            continue
        if r["stars"] == 0:
            out.append(((itm,), {}))
        elif r["stars"] == 1:
            out.append((tuple(itm), {}))
        else:
            out.append(((), dict(itm)))
    return out


def tpl_occupied(size, occ, conc, stars, L, x2, a2, x3, a3, _twin=False):
    """The map call is made on a pool that other work already occupies (occ apply tasks, possibly filling it): the
    consumer's first step may find no room at all.  Same clauses; the occupants are workers 0 .. occ-1."""
    return tpl_map(size, conc, stars, L, -1, 1, x2, a2, x3, a3, 9, 0, -1, _twin, occ)


def tpl_map(size, conc, stars, L, bad, cb, x2, a2, x3, a3, t, bk=0, emp=-1, _twin=False, occ=0):
    w = World("c05.occupied" if occ else "c05.map")
    code = 0
    try:
        pool = TaskPool(pool_size=size)
        it = Interp(w, pool, cbkind=cb)
        if occ:
            it.apply(occ, fname="occupant")
            w.settle()
        r = it.map(L, conc, stars=stars, bad=bad, badkind=bk, empty=emp)

        def created():
            reg = pool._task_groups.get(r["group"])
            return len(reg) if reg is not None else 0

        def skipped():
            return 1 if (bad >= 0 and r["pulled"] > bad) else 0

        def mon():
            live = 0
            for x in w.W:
                if x["req"] == r["idx"] and x["state"] == "run":
                    live += 1
            if live > conc:
                w.fail(501)
            if r["pulled"] > created() + skipped() + 1:
                w.fail(502)

        def idle():
            mon()
            if w.idle and not w.incb:
                remaining = L - created() - skipped()
                if remaining > 0 and not pool.is_full:
                    live = sum(1 for x in w.W if x["req"] == r["idx"] and x["state"] == "run")
                    if live != conc:
                        w.fail(503)
        w.monitors.append(mon)
        try:
            drive(w, it, ALPHA, [(NOP, 0), (x2, a2), (x3, a3)], t, idle)
        except Excluded as e:
            w.excluded = str(e)
        code = w.err
        if not code and not w.excluded and size > 0:
            got = [(x["args"], x["kw"]) for x in it.workers_of(r)]
            exp = _expected(r)
            if len(got) != len(exp):
                code = 505 if len(got) < len(exp) else 504
            else:
                for (ga, gk), (ea, ek) in zip(got, exp):
                    if ga != ea or gk != ek:
                        code = 504
            if not code and r["pulled"] != L:
                code = 505
        if _twin and not code and not w.excluded:
            if occ:
                if r.get("exhausted") and len(it.workers_of(r)) == L and L >= 2 and pool._num_started == occ + L:
                    code = 77
            elif len(w.W) >= 2 and w.peak >= 2 and r.get("exhausted"):
                code = 77
        return code
    finally:
        w.close(code)


def families(tier):
    thorough = tier == "thorough"
    P = ["size", "conc", "stars", "L", "bad", "cb", "x2", "a2", "x3", "a3", "t", "bk", "emp"]
    lmax = 4 if thorough else 3
    fams = [Family(
        name="order", fn="tpl_map", params=P,
        pre=["size >= 0", "conc >= 1", "0 <= stars <= 2", "0 <= L <= %d" % lmax, "-1 <= bad < L or bad == -1", "bad >= -1",
             "cb == 1", "x2 == %d" % NOP, "a2 == 0", "x3 == %d" % NOP, "a3 == 0", "t >= 0", "0 <= bk <= 1", "bk == 0 or (stars >= 1 and bad >= 0)", "-1 <= emp <= 2", "emp == -1 or (stars >= 1 and bad == -1 and emp < L)"],
        parts=refine(parts_product(stars=range(3), L=range(lmax + 1)), ["L == %d" % lmax], "bad", range(-1, lmax)),
        twin_pre=["stars == 1", "L == 3"], twin_args=[2, 2, 1, 3, 1, 1, NOP, 0, NOP, 0, 9, 0, -1])]
    fams.append(Family(
        name="occupied", fn="tpl_occupied", params=["size", "occ", "conc", "stars", "L", "x2", "a2", "x3", "a3"],
        pre=["size >= 1", "1 <= occ <= 2", "1 <= conc <= 2", "0 <= stars <= 2", "1 <= L <= 3", "0 <= x2 <= %d" % NOP, "a2 >= -1",
             "0 <= x3 <= %d" % NOP, "a3 >= -1"] + ([] if thorough else ["size <= 3", "stars == 0", "L == 3", "x2 == 0 or x2 == 2 or x2 == %d" % NOP,
                                                    "x3 == 0 or x3 == %d" % NOP, "a2 <= 2", "a3 <= 3"]),
        parts=parts_product(occ=(1, 2), conc=(1, 2)) if not thorough else parts_product(occ=(1, 2), conc=(1, 2), stars=range(3), x2=range(NOP + 1)),
        twin_pre=["occ == 2", "conc == 2", "L == 3", "x2 == 0"], twin_args=[2, 2, 2, 0, 3, 0, 0, 0, 1]))
    if not thorough:
        fams.append(Family(
            name="inter", fn="tpl_map", params=P,
            pre=["size >= 0", "1 <= conc <= 2", "stars == 0", "L == 3", "bad == -1", "cb == 1 or cb == 3",
                 "0 <= x2 < %d" % NOP, "a2 >= -1", "0 <= x3 <= %d" % NOP, "a3 >= -1", "t >= 4", "bk == 0", "emp == -1"],
            parts=parts_product(cb=(1, 3), x2=range(NOP), x3=range(NOP + 1)),
            twin_pre=["cb == 1", "x2 == 0", "x3 == 2"], twin_args=[2, 2, 0, 3, -1, 1, 0, 0, 2, 1, 9, 0, -1]))
    else:
        fams.append(Family(
            name="inter", fn="tpl_map", params=P,
            pre=["size >= 0", "conc >= 1", "0 <= stars <= 2", "L == 3", "bad == -1", "cb == 1",
                 "0 <= x2 < %d" % NOP, "a2 >= -1", "0 <= x3 <= %d" % NOP, "a3 >= -1", "t >= 0", "bk == 0", "emp == -1"],
            parts=parts_product(stars=range(3), x2=range(NOP), x3=range(NOP + 1)),
            twin_pre=["x2 == 0", "x3 == 2", "stars == 0"], twin_args=[2, 2, 0, 3, -1, 1, 0, 0, 2, 1, 9, 0, -1]))
        fams.append(Family(
            name="bad", fn="tpl_map", params=P,
            pre=["size >= 0", "1 <= conc <= 2", "0 <= stars <= 2", "L == 3", "0 <= bad <= 2", "cb == 3",
                 "0 <= x2 < %d" % NOP, "a2 >= -1", "x3 == %d" % NOP, "a3 == 0", "t >= 4", "0 <= bk <= 1", "bk == 0 or stars >= 1", "emp == -1"],
            parts=parts_product(stars=range(3), bad=range(3)),
            twin_pre=["x2 == 0", "stars == 0", "bad == 2"], twin_args=[3, 2, 0, 3, 2, 3, 0, 0, NOP, 0, 9, 0, -1]))
    return fams
