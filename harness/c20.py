"""C20 Queue context manager marks every taken item processed exactly once."""
import asyncio

from asyncio_taskpool.queue_context import Queue
from engine.prog import parts_product, select
from engine.spec import Family
from engine.world import World, task_outcome

ID = "C20"
CLAUSES = {
    2001: "join() completed although an item put so far has not been taken and its block exited",
    2002: "join() did not complete although every item put so far was taken and its block has exited",
    2003: "a consumer ended with an unexpected exception (e.g. ValueError from task_done called too often)",
    2004: "an item was handed to more than one block / an unknown item was handed out",
    2005: "a block was entered without an item having been put",
    2006: "idle: a consumer is waiting for an item although an item that was put has not been handed to any block",
    77: "reachability twin",
}
FUNCTIONS = ["Queue.__aenter__", "Queue.__aexit__", "Queue.item_processed"]
ASSUMPTIONS = ["asyncio.Queue (get/put/task_done/join) is the interpreter's own implementation, executed symbolically together with the subclass"]

ALPHA = ("put", "cons", "brel", "bfail", "ccancel", "nop")
ITEMS = (None, 0, "", (), 4, 5, 6, 7, 8, 9)      # the first items a producer puts are falsy on purpose
NOP = len(ALPHA) - 1


def tpl_queue(maxsize, x1, a1, x2, a2, x3, a3, x4, a4, x5, a5, t, _twin=False):
    w = World("c20.queue")
    code = 0
    try:
        q = Queue(maxsize)
        st = {"puts": 0, "exited": 0, "entered": 0, "nput": 0}
        taken = {}
        cons = []      # [task, gate-or-None, injected exception]
        probes = []

        async def producer(item):
            await q.put(item)
            st["puts"] += 1

        async def consumer(rec):
            async with q as item:
                st["entered"] += 1
                taken[item] = taken.get(item, 0) + 1
                rec[1] = w.loop.create_future()
                try:
                    await rec[1]
                finally:
                    st["exited"] += 1

        def act(x, a):
            name = select(ALPHA, x)
            w.op(name, a)
            if name == "put":
                w.spawn(producer(ITEMS[st["nput"]]))
                st["nput"] += 1
            elif name == "cons":
                rec = [None, None, None]
                rec[0] = w.spawn(consumer(rec))
                cons.append(rec)
            elif name in ("brel", "bfail"):
                k = 0
                for rec in cons:      # the a-th consumer currently inside its block
                    if rec[1] is not None and not rec[1].done() and not rec[0].done():
                        if k == a:
                            if name == "brel":
                                rec[1].set_result(None)
                            else:
                                rec[2] = KeyError("body fault")
                                rec[1].set_exception(rec[2])
                            break
                        k += 1
            elif name == "ccancel":
                if 0 <= a < len(cons):
                    cons[a][0].cancel()

        def probe():
            if not w.idle:
                return
            j = w.spawn(q.join())
            w.settle()
            done = j.done()
            if not done:
                j.cancel()
                w.settle()
            balanced = st["puts"] == st["exited"]
            if done and not balanced:
                w.fail(2001)
            if balanced and not done:
                w.fail(2002)
            for rec in cons:
                kind, exc = task_outcome(rec[0])
                if kind == "exc" and exc is not rec[2]:
                    w.fail(2003)
            for item, n in taken.items():
                if n != 1 or not any(item is x for x in ITEMS[:st["nput"]]):
                    w.fail(2004)
            if st["entered"] > st["puts"]:
                w.fail(2005)
            waiting = sum(1 for rec in cons if rec[1] is None and not rec[0].done())
            if waiting and st["puts"] > st["entered"]:
                w.fail(2006)

        steps = ((x1, a1), (x2, a2), (x3, a3), (x4, a4), (x5, a5))
        for k, (x, a) in enumerate(steps):
            act(x, a)
            if k == 0:
                w.ticks(t)
            elif k == 1:
                w.ticks(t)      # the second step is placed early as well: cancel right after a get was satisfied
                w.settle()
                probe()
            else:
                w.settle()
                probe()
        # finish: let every block that is still open exit, one at a time
        for rec in cons:
            if rec[1] is not None and not rec[1].done() and not rec[0].done():
                rec[1].set_result(None)
                w.settle()
                probe()
        code = w.err
        if _twin and not code:
            if st["exited"] >= 1 and st["puts"] >= 1 and any(task_outcome(r[0])[0] == "cancelled" for r in cons):
                code = 77
        return code
    finally:
        w.close(code)


def tpl_aexit(maxsize, n, t, _twin=False):
    """n items are queued, one consumer holds the first; its body finishes and t iterations later the consumer is
    cancelled (t = 1 is 'right at block exit'); other consumers then take the rest.  join() must complete."""
    w = World("c20.aexit")
    code = 0
    try:
        q = Queue(maxsize)
        st = {"exited": 0, "entered": 0}
        gates = []

        async def consumer():
            async with q as item:
                st["entered"] += 1
                g = w.loop.create_future()
                gates.append(g)
                try:
                    await g
                finally:
                    st["exited"] += 1
        puts = 0
        for k in range(n):
            try:
                q.put_nowait(ITEMS[k])
                puts += 1
            except asyncio.QueueFull:
                break
        w.op("put", puts)
        c0 = w.spawn(consumer())
        w.settle()
        w.op("body-exit-then-cancel", t)
        gates[0].set_result(None)
        w.ticks(t)
        c0.cancel()
        w.settle()
        for k in range(puts - 1):
            w.spawn(consumer())
            w.settle()
            gates[-1].set_result(None)
            w.settle()
        j = w.spawn(q.join())
        w.settle()
        if st["exited"] == puts and not j.done():
            code = 2002
        if j.done() and st["exited"] != puts:
            code = 2001
        if not j.done():
            j.cancel()
            w.settle()
        if _twin and not code and puts >= 2 and st["exited"] == puts:
            code = 77
        return code
    finally:
        w.close(code)


def families(tier):
    thorough = tier == "thorough"
    P = ["maxsize", "x1", "a1", "x2", "a2", "x3", "a3", "x4", "a4", "x5", "a5", "t"]
    pre = ["maxsize >= 0", "0 <= x1 <= 1", "a1 == 0", "0 <= x2 < %d" % NOP, "a2 >= 0", "0 <= x3 < %d" % NOP, "a3 >= 0",
           "0 <= x4 <= %d" % NOP, "a4 >= 0", "t >= 0"]
    if not thorough:
        pre += ["x5 == %d" % NOP, "a5 == 0", "a2 <= 1", "a3 <= 2", "a4 <= 2"]
        parts = parts_product(x1=(0, 1), x2=range(NOP), x3=range(NOP))
    else:
        pre += ["0 <= x5 <= %d" % NOP, "a5 >= 0", "a2 <= 2", "a3 <= 3", "a4 <= 3", "a5 <= 3"]
        parts = parts_product(x1=(0, 1), x2=range(NOP), x3=range(NOP), x4=range(NOP + 1))
    return [Family(name="aexit", fn="tpl_aexit", params=["maxsize", "n", "t"], pre=["maxsize >= 0", "1 <= n <= 3", "t >= 0"],
                   parts=parts_product(n=(1, 2, 3)), twin_pre=["n == 2"], twin_args=[0, 2, 1]),
            Family(name="queue", fn="tpl_queue", params=P, pre=pre, parts=parts,
                   twin_pre=["x1 == 0", "x2 == 1", "x3 == 4"], twin_args=[0, 0, 0, 1, 0, 4, 0, NOP, 0, NOP, 0, 9])]
