"""C09 Rejected requests leave no trace; lock/unlock gate new requests."""
from asyncio_taskpool import SimpleTaskPool, TaskPool
from asyncio_taskpool.exceptions import (NotCoroutineFunction, PoolIsClosed, PoolIsLocked, TaskGroupAlreadyExists)
from engine.prog import Interp, parts_product
from engine.spec import Family
from engine.world import Excluded, World, task_outcome

ID = "C09"
CLAUSES = {
    901: "a request with a rejection cause present was accepted",
    902: "a request was rejected with an error that matches none of the causes present",
    903: "a request without any rejection cause was rejected",
    904: "a rejected request changed the pool (counters, groups, ids, lock state)",
    905: "a rejected request touched the argument iterable or called func",
    906: "a rejected request started a task (after settling)",
    907: "lock()/unlock() not idempotent",
    908: "after unlock() the same request was still rejected (or wrongly accepted)",
    909: "negative pool_size accepted / wrong error",
    910: "negative pool_size changed the pool",
    911: "harness: could not close the pool",
    912: "a rejected request consumed a generated group name (the next unnamed request is named differently than without it)",
    77: "reachability twin",
}
FUNCTIONS = ["BaseTaskPool._check_start", "TaskPool.apply", "TaskPool._map", "TaskPool.map", "TaskPool.starmap",
             "TaskPool.doublestarmap", "SimpleTaskPool.start", "BaseTaskPool.lock", "BaseTaskPool.unlock", "BaseTaskPool.pool_size"]

METHODS = ("apply", "map", "starmap", "doublestarmap", "start")


def _snap(w, pool, gen_rec):
    groups = sorted(pool._task_groups)
    return (pool.num_running, pool.num_cancelled, pool.num_ended, pool.is_locked, pool._num_started, groups,
            [sorted(pool.get_group_ids(g)) for g in groups], sorted(pool._group_meta_tasks_running),
            (gen_rec["pulled"], gen_rec.get("iters", 0)), dict(w.calls), len(w.W), w.live, pool._closed.is_set())


class Feed:
    """An argument iterable on which even asking for an iterator is observable (cursor-/file-backed sources)."""

    def __init__(self, rec, items):
        self.rec, self.items = rec, items

    def __iter__(self):
        self.rec["iters"] = self.rec.get("iters", 0) + 1      # observable at once, not only on the first next()
        return self._gen()

    def _gen(self):
        rec = self.rec
        for it in self.items:
            rec["pulled"] += 1
            yield it


def plain_function(*a, **k):
    raise AssertionError("func must not be called")


def tpl_reject(size, m, pfx, locked, closed, notcoro, c, dup, _twin=False):
    w = World("c09.reject")
    code = 0
    accepted = None
    try:
        simple = m == 4
        if simple:
            inner = w.callsite(7, w.worker(7))
            pool = SimpleTaskPool(inner, pool_size=size)
        else:
            pool = TaskPool(pool_size=size)
        it = Interp(w, pool, cbkind=0)
        gen_rec = {"pulled": 0}

        def prefix(it_, late=False):
            # pfx 5: the history of pfx 3, flushed only *after* lock() (late=True: the twin, which is never locked)
            # history prefix: an existing group "G" (TaskPool) / start-group-0 with running and waiting tasks
            base = len(w.W)
            if pfx >= 1:
                if it_.simple:
                    it_.start(2)
                else:
                    it_.apply(2, group="G")
                w.settle()
            if pfx >= 2:
                it_.release(base)
                w.settle()
            if pfx >= 3:
                it_.cancel(1)
                w.settle()
            if pfx == 4 or (pfx == 5 and late):
                it_.flush(True)
                w.settle()

        def accepted_unnamed(p_):
            """A valid, unnamed request of the same kind; returns the generated group name."""
            fn = w.callsite(9, w.worker(9))
            if m == 0:
                return p_.apply(fn, num=0)
            if m == 1:
                return p_.map(fn, [], num_concurrent=1)
            if m == 2:
                return p_.starmap(fn, [], num_concurrent=1)
            if m == 3:
                return p_.doublestarmap(fn, [], num_concurrent=1)
            return p_.start(0)
        failed_close = False
        try:
            prefix(it)
            if closed == 2:
                # a close that *fails*: a task ended with an exception, gather_and_close() re-raises it - the pool is
                # left locked (closing locks first) but not closed; only unlock() may re-open it
                run = [x for x in w.W if x["state"] == "run"]
                if not run:
                    return 0
                it.fail(run[0]["wid"])
                w.drain()
                g = it.gather_and_close(False)
                w.settle()
                if task_outcome(g)[0] != "exc":
                    return 0
                locked = 1
                closed = 0
                failed_close = True
            if closed:
                w.drain()
                g = it.gather_and_close(True)
                w.settle()
                if task_outcome(g)[0] != "ok":
                    return 0 if size == 0 else 911   # a 0-sized pool with pending requests can never be closed
            if locked and not failed_close:
                pool.lock()
                pool.lock()
                if not pool.is_locked:
                    code = 907
                if pfx == 5:
                    # the lock stays in force across operations that are not unlock(): a flush of remembered tasks
                    it.flush(True)
                    w.settle()
            elif pfx == 5 and not failed_close:
                it.flush(True)
                w.settle()

            def request():
                func = plain_function if notcoro else w.callsite(8, w.worker(8))
                gname = "G" if dup else None
                if m == 0:
                    return pool.apply(func, num=2, group_name=gname)
                gen = Feed(gen_rec, [(1,), (2,)] if m != 3 else [{}, {}])
                if m == 1:
                    return pool.map(func, gen, num_concurrent=c, group_name=gname)
                if m == 2:
                    return pool.starmap(func, gen, num_concurrent=c, group_name=gname)
                if m == 3:
                    return pool.doublestarmap(func, gen, num_concurrent=c, group_name=gname)
                return pool.start(2)

            causes = []
            if notcoro and not simple:
                causes.append(NotCoroutineFunction)
            if closed:
                causes.append(PoolIsClosed)
            if locked:
                causes.append(PoolIsLocked)
            if 1 <= m <= 3 and c < 1:
                causes.append(ValueError)
            if dup and pfx >= 1 and not simple:
                causes.append(TaskGroupAlreadyExists)
            before = _snap(w, pool, gen_rec)
            err = None
            retried_ok = False
            w.op("request:" + METHODS[m if isinstance(m, int) else [j for j in range(5) if m == j][0]], "locked" if locked else "-",
                 "closed" if closed else "-", "notcoro" if notcoro else "-", c, "dup" if dup else "-")
            try:
                request()
                accepted = True
            except Exception as e:   # noqa: BLE001 - the class is what is checked
                err = e
                accepted = False
            if not code:
                if causes and accepted:
                    code = 901
                elif causes and not any(type(err) is k for k in causes):
                    code = 902
                elif not causes and not accepted:
                    code = 903
            if not code and not accepted:
                if _snap(w, pool, gen_rec) != before:
                    code = 904 if _snap(w, pool, gen_rec)[:8] != before[:8] else 905
                w.settle()
                after = _snap(w, pool, gen_rec)
                if not code and after != before:
                    code = 906 if after[10] != before[10] else 904
                # unlock restores normal acceptance
                if not code and locked:
                    pool.unlock()              # one unlock() undoes lock(); lock()
                    if pool.is_locked:
                        code = 907
                    pool.unlock()
                    if pool.is_locked:
                        code = 907
                    rest = [k for k in causes if k is not PoolIsLocked]
                    try:
                        request()
                        retried_ok = True
                        if rest:
                            code = 908
                    except Exception as e:  # noqa: BLE001
                        if not rest or not any(type(e) is k for k in rest):
                            code = 908
                if not code and not closed and not dup and not pool.is_locked and not retried_ok:
                    # no trace also means: the next generated group name is what it would have been without the
                    # rejected request - compared with a twin pool that saw the same history minus the rejection
                    if simple:
                        twin = SimpleTaskPool(w.callsite(7, w.worker(7)), pool_size=size)
                    else:
                        twin = TaskPool(pool_size=size)
                    prefix(Interp(w, twin, cbkind=0), late=True)
                    n_here, n_twin = accepted_unnamed(pool), accepted_unnamed(twin)
                    if n_here != n_twin:
                        code = 912
        except Excluded as e:
            w.excluded = str(e)
        code = code or w.err
        if _twin and not code and not w.excluded:
            if accepted is False and locked and pfx >= 1 and not closed:
                code = 77
        return code
    finally:
        w.close(code)


def tpl_size(size, v, k, ctor, half=0, _twin=False):
    """pool_size = v (any integer) on a pool with k running tasks; ctor=1: the constructors instead."""
    w = World("c09.size")
    code = 0
    if half == 1:
        from fractions import Fraction
        v = Fraction(v, 2)          # odd v: a value between two integers (e.g. -1/2); exact arithmetic, no floats
    elif half == 2:
        v = float("-inf")           # "less than 0" in the extreme
    try:
        if ctor:
            for mk in (lambda: TaskPool(pool_size=v), lambda: SimpleTaskPool(w.worker(1), pool_size=v)):
                try:
                    mk()
                    if v < 0:
                        code = 909
                except ValueError:
                    if v >= 0:
                        code = 909
            try:
                SimpleTaskPool(plain_function, pool_size=3)
                code = code or 901
            except NotCoroutineFunction:
                pass
            if _twin and not code and v < 0:
                code = 77
            return code
        pool = TaskPool(pool_size=size)
        it = Interp(w, pool, cbkind=0)
        it.apply(k)
        w.settle()
        gen_rec = {"pulled": 0}
        before = _snap(w, pool, gen_rec) + (pool._enough_room._value,)
        w.op("set_pool_size", v, "negative" if v < 0 else "ok")
        try:
            pool.pool_size = v
            if v < 0:
                code = 909
        except ValueError:
            if v >= 0:
                code = 909
            else:
                w.settle()
                if _snap(w, pool, gen_rec) + (pool._enough_room._value,) != before:
                    code = 910
        except Exception:  # noqa: BLE001
            code = 909
        if _twin and not code and v < 0 and w.live:
            code = 77
        return code
    finally:
        w.close(code)


def families(tier):
    P = ["size", "m", "pfx", "locked", "closed", "notcoro", "c", "dup"]
    pre = ["size >= 0", "0 <= m <= 4", "0 <= pfx <= 5", "0 <= locked <= 1", "0 <= closed <= 2", "0 <= notcoro <= 1", "0 <= dup <= 1", "closed <= 1 or pfx >= 1"]
    if tier != "thorough":
        pre += ["c <= 2"]
    return [
        Family(name="reject", fn="tpl_reject", params=P, pre=pre,
               parts=parts_product(m=range(5), pfx=range(6), closed=(0, 1)) + parts_product(m=range(5), pfx=(1, 2, 3, 4, 5), closed=(2,)),
               twin_pre=["m == 1", "pfx == 1", "closed == 0", "locked == 1"], twin_args=[2, 1, 1, 1, 0, 0, 1, 0]),
        Family(name="size", fn="tpl_size", params=["size", "v", "k", "ctor", "half"],
               pre=["size >= 0", "0 <= k <= 3", "0 <= ctor <= 1", "0 <= half <= 2", "half == 0 or (-9 <= v <= 9)", "half != 2 or v == -1"],
               parts=parts_product(ctor=(0, 1), k=range(4), half=(0, 1, 2)),
               twin_pre=["ctor == 0", "k == 1", "half == 0"], twin_args=[2, -1, 1, 0, 0]),
    ]
