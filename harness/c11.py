"""C11 Task ids are dense, ordered, never reused, visible in task names."""
from asyncio_taskpool import SimpleTaskPool, TaskPool
from engine.prog import Interp, parts_product, refine, select
from engine.spec import Family
from engine.world import Excluded, World, unstarted

ID = "C11"
CLAUSES = {
    1101: "task ids of one pool are not increasing in creation order",
    1102: "an id below the number of tasks created was never given to a task (ids not dense) or an id was reused",
    1103: "a task's name is not '<pool>_Task-<id>'",
    1104: "a callback received an id that is not the id in its task's name",
    1105: "pools do not number their tasks independently",
    1106: "pools have the same name",
    77: "reachability twin",
}
FUNCTIONS = ["BaseTaskPool._start_task", "BaseTaskPool._task_name", "BaseTaskPool.__str__", "BaseTaskPool._add_pool", "BaseTaskPool.__init__"]

ALPHA = ("applyA1", "applyA2", "mapA", "startB1", "startB2", "rel", "cancelA", "cancelB", "flushA", "flushB", "nop")
NOP = len(ALPHA) - 1


def tpl_ids(sizeA, sizeB, named, x1, a1, x2, a2, x3, a3, x4, a4, t, _twin=False):
    w = World("c11.ids")
    code = 0
    try:
        # a pool somebody named with digits (the index a later unnamed pool will get): only *unnamed* pools are
        # compared with each other below - a chosen name that imitates a default one is the user's business
        Z = SimpleTaskPool(w.worker("Z"), name="4")
        A = TaskPool(pool_size=sizeA)
        refB = [None]
        ecb, ccb = w.callbacks(1, refB)
        fB = w.worker("B")
        B = SimpleTaskPool(fB, pool_size=sizeB, name="n%m%%d" if named else None, end_callback=ecb, cancel_callback=ccb)
        refB[0] = B
        C = TaskPool()
        B2 = SimpleTaskPool(fB)         # a second simple pool built on the very same coroutine function, unnamed
        B3 = SimpleTaskPool(fB, pool_size=sizeB)
        itA, itB = Interp(w, A, cbkind=2), Interp(w, B, cbkind=0)
        names = [str(A), str(C), str(B2), str(B3)] + ([] if named else [str(B)])
        if len(set(names)) != len(names):
            code = 1106

        def check():
            for pool in (A, B):
                pre = str(pool) + "_Task-"
                ids = [x["id"] for x in w.W if x["name"].startswith(pre)]
                for x in w.W:
                    if x["name"].startswith(pre) and x["name"] != pre + str(x["id"]):
                        w.fail(1103)
                for u, v in zip(ids, ids[1:]):
                    if v <= u:
                        w.fail(1101)
                missing = [i for i in range(pool._num_started) if i not in ids]
                for i in missing:
                    # an id no worker saw must belong to a created task whose coroutine never began
                    if i not in pool._tasks_running:
                        w.fail(1102)
                for i in ids:
                    if not (0 <= i < pool._num_started):
                        w.fail(1102)
            for c in w.cb:
                if not c[8].endswith("_Task-" + str(c[1])):
                    w.fail(1104)

        def act(x, a):
            name = select(ALPHA, x)
            if name == "applyA1":
                itA.apply(1)
            elif name == "applyA2":
                itA.apply(2)
            elif name == "mapA":
                itA.map(2, 2)
            elif name == "startB1":
                itB.start(1)
            elif name == "startB2":
                itB.start(2)
            elif name == "rel":
                itA.release(a)
            elif name == "cancelA":
                itA.cancel(a)
            elif name == "cancelB":
                itB.cancel(a)
            elif name == "flushA":
                itA.flush(True)
            elif name == "flushB":
                itB.flush(True)
        try:
            for k, (x, a) in enumerate(((x1, a1), (x2, a2), (x3, a3), (x4, a4))):
                act(x, a)
                if k == 0:
                    w.ticks(t)
                else:
                    w.settle()
                check()
            w.drain()
            check()
            # epilogue: everything that has finished is flushed, then both pools get two more single-task requests:
            # ids keep counting from where they were, never from what the pool still remembers
            itA.flush(True); itB.flush(True)
            w.settle()
            for _ in range(2):
                itA.apply(1)
                itB.start(1)
                w.settle()
            check()
            w.drain()
            check()
            # independence: both pools started from 0
            for pool in (A, B):
                if pool._num_started and not any(x["name"] == str(pool) + "_Task-0" for x in w.W) \
                        and not (0 in pool._tasks_running):
                    w.fail(1105)
            # a pool that was closed must not make a later unnamed pool collide with a live one
            if t >= 0:
                g = itA.gather_and_close(True)
                w.settle()
                if g.done():
                    D = TaskPool()
                    E = SimpleTaskPool(w.worker("E"))
                    names2 = names + [str(D), str(E)]
                    if len(set(names2)) != len(names2):
                        w.fail(1106)
        except Excluded as e:
            w.excluded = str(e)
        code = code or w.err
        if _twin and not code and not w.excluded:
            if A._num_started >= 2 and B._num_started >= 1 and w.cb and (itA.flushes or itB.flushes):
                code = 77
        return code
    finally:
        w.close(code)


def families(tier):
    thorough = tier == "thorough"
    P = ["sizeA", "sizeB", "named", "x1", "a1", "x2", "a2", "x3", "a3", "x4", "a4", "t"]
    pre = ["sizeA >= 0", "sizeB >= 0", "0 <= named <= 1", "0 <= x1 < 5", "a1 == 0", "0 <= x2 < %d" % NOP, "a2 >= -1",
           "0 <= x3 <= %d" % NOP, "a3 >= -1", "t >= 0"]
    if not thorough:
        pre += ["x4 == %d" % NOP, "a4 == 0", "1 <= sizeA <= 2", "sizeB == 2", "a2 <= 2", "a3 <= 1", "named == 0 or x1 == 3", "t >= 4"]
        parts = [p + [q] for p in parts_product(x1=range(5), x2=range(NOP)) for q in ("x3 <= 5", "x3 >= 6")]
    else:
        pre += ["x4 == %d" % NOP, "a4 == 0", "1 <= sizeA <= 3", "1 <= sizeB <= 2", "a2 <= 2", "a3 <= 2"]
        parts = refine(parts_product(named=(0, 1), x1=range(5), x2=range(NOP)), ["x2 == %d" % k for k in range(5)], "x3", range(NOP + 1))
    return [Family(name="ids", fn="tpl_ids", params=P, pre=pre, parts=parts,
                   twin_pre=["x1 == 1", "x2 == 4", "x3 == 8", "named == 0"], twin_args=[2, 2, 0, 1, 0, 4, 0, 8, 0, NOP, 0, 9])]
