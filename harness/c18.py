"""C18 (reduced scope) A session survives any input and answers each line once: the listen-loop kernel."""
from argparse import ArgumentError, Namespace

from asyncio_taskpool import TaskPool
from asyncio_taskpool.control.session import ControlSession
from asyncio_taskpool.exceptions import HelpRequested, ParserError
from engine.prog import Interp, parts_product
from engine.spec import Family
from engine.world import World, task_outcome

ID = "C18"
CLAUSES = {
    1801: "a session did not write exactly one reply per non-blank line (so far)",
    1802: "a reply is not the line's own output followed by a newline (stale / foreign / missing text)",
    1803: "an exception left listen()",
    1804: "a malformed line / help request altered the pool",
    1805: "a waiting command was answered before its wait was over",
    1806: "the session stopped although neither EOF arrived nor the server stopped",
    1807: "the session did not end after EOF",
    1808: "the session did not end after the server stopped and the pending line was answered",
    77: "reachability twin",
}
FUNCTIONS = ["ControlSession.listen", "ControlSession._parse_command", "ControlSession._exec_method_and_respond",
             "ControlSession._exec_property_and_respond", "helpers.return_or_exception"]
ASSUMPTIONS = [
    "reduced scope: the real ControlParser/argparse is replaced by a stub obeying its contract (returns a namespace for a real pool member, "
    "or raises ArgumentError, or writes help/usage text into the session's buffer and raises HelpRequested/ParserError); "
    "the 'for every text line' quantifier through argparse is outside the claim",
    "reader/writer are recording stubs (readline waits for the harness to feed a line; drain returns at once)",
]

KINDS = ("get", "help", "perr", "aerr", "lock", "flush", "eof", "cbrel", "stop", "unlock", "apply", "bighelp")
BIG = 1500      # longer than any buffer-size heuristic a session might apply


class _Server:
    client_class_name = "HarnessClient"

    def __init__(self, pool):
        self.pool = pool
        self.serving = True

    def is_serving(self):
        return self.serving


class _Reader:
    def __init__(self, w):
        self.w = w
        self.lines = []
        self.waiter = None

    def feed(self, data):
        self.lines.append(data)
        if self.waiter is not None and not self.waiter.done():
            self.waiter.set_result(None)

    async def readline(self):
        while not self.lines:
            self.waiter = self.w.loop.create_future()
            await self.waiter
        return self.lines.pop(0)


class _Writer:
    def __init__(self):
        self.out = []

    def write(self, b):
        self.out.append(b)

    async def drain(self):
        pass


class _StubParser:
    """Contract of ControlParser.parse_args as the session sees it."""

    def __init__(self, session, ch):
        self.s, self.ch, self.plan = session, ch, []
        self.stream = session._response_buffer      # ControlParser(stream=...) keeps the object it was given

    def parse_args(self, tokens):
        kind, n = self.plan.pop(0)
        if kind == "get":
            return Namespace(command=TaskPool.num_running)
        if kind == "help":
            self.stream.write(self.ch * n)
            raise HelpRequested
        if kind == "bighelp":
            self.stream.write(self.ch * BIG)
            raise HelpRequested
        if kind == "perr":
            self.stream.write(self.ch.upper() * n)
            raise ParserError
        if kind == "aerr":
            raise ArgumentError(None, self.ch * n + "!")
        if kind == "lock":
            return Namespace(command=TaskPool.lock)
        if kind == "unlock":
            return Namespace(command=TaskPool.unlock)
        if kind == "apply":
            self.napply = getattr(self, "napply", 0) + 1
            return Namespace(command=TaskPool.apply, func=self.s._verif_fn, args=(), kwargs=None, num=0,
                             group_name="%s%d" % (self.ch, self.napply), end_callback=None, cancel_callback=None)
        if kind == "flushF":
            return Namespace(command=TaskPool.flush, return_exceptions=False)
        if kind == "gatherF":
            return Namespace(command=TaskPool.gather_and_close, return_exceptions=False)
        return Namespace(command=TaskPool.flush, return_exceptions=True)


def _snap(pool, w):
    return (pool.num_running, pool.num_cancelled, pool.num_ended, pool.is_locked, len(w.W), w.live, sorted(pool._task_groups))


def tpl_listen(s1, k1, n1, s2, k2, n2, s3, k3, n3, s4, k4, n4, _twin=False):
    w = World("c18.listen")
    code = 0
    try:
        pool = TaskPool(pool_size=3, name="p")
        it = Interp(w, pool, cbkind=3)
        it.apply(2); w.settle()
        it.release(0); w.settle()          # task 0 sits in its slow end callback: flush() has to wait for it
        server = _Server(pool)
        sess = []
        for ch in ("a", "b"):
            rd, wr = _Reader(w), _Writer()
            s = ControlSession(server, rd, wr)
            s._parser = _StubParser(s, ch)
            s._verif_fn = w.worker(("s", ch))
            sess.append({"s": s, "rd": rd, "wr": wr, "task": w.spawn(s.listen()), "exp": [], "eof": False, "fed": 0,
                         "pending_flush": None, "stopline": False})
        w.settle()
        cb_released = [False]

        def ch_of(q):
            return q["s"]._parser.ch

        def check():
            for q in sess:
                kind, exc = task_outcome(q["task"])
                if kind in ("exc", "cancelled"):
                    w.fail(1803)
                exp = list(q["exp"])
                if q["pending_flush"] is not None and not cb_released[0]:
                    # the flush line (and everything after it) must still be unanswered
                    if len(q["wr"].out) > q["pending_flush"]:
                        w.fail(1805)
                    exp = exp[:q["pending_flush"]]
                if not server.serving:
                    # lines still queued when the server stopped need no answer; what was written must be right
                    if len(q["wr"].out) > len(exp):
                        w.fail(1801)
                    exp = exp[:len(q["wr"].out)]
                if len(q["wr"].out) != len(exp):
                    w.fail(1801)
                else:
                    for got, e in zip(q["wr"].out, exp):
                        if e is None:      # reply of an apply line: the requested group name, or empty if the pool refused it
                            if got != b"\n" and not (got[:1] == ch_of(q).encode() and got.endswith(b"\n")):
                                w.fail(1802)
                        elif got != (e + "\n").encode():
                            w.fail(1802)
                if kind == "ok" and not q["eof"] and server.serving:
                    w.fail(1806)
                if q["eof"] and kind != "ok" and (q["pending_flush"] is None or cb_released[0]):
                    w.fail(1807)

        for (s_, k_, n_) in ((s1, k1, n1), (s2, k2, n2), (s3, k3, n3), (s4, k4, n4)):
            kind = "nop"
            for j in range(len(KINDS)):
                if k_ == j:
                    kind = KINDS[j]
            n = 0
            if kind in ("help", "perr", "aerr"):      # the text length only matters (and only forks) for text replies
                for j in range(4):
                    if n_ == j:
                        n = j
            q = sess[1] if s_ == 1 else sess[0]
            w.op(kind, s_, n)
            if kind == "cbrel":
                it.cb_release(0)
                cb_released[0] = True
            elif kind == "stop":
                server.serving = False
            elif kind == "eof":
                if not q["eof"]:
                    q["eof"] = True
                    q["rd"].feed(b"")
            elif kind != "nop" and not q["eof"] and task_outcome(q["task"])[0] == "pending":
                before = _snap(pool, w)
                q["s"]._parser.plan.append((kind, n))
                q["rd"].feed(b"line %d\n" % q["fed"])
                q["fed"] += 1
                ch = q["s"]._parser.ch
                if kind == "get":
                    q["exp"].append(str(pool.num_running))
                elif kind == "help":
                    q["exp"].append(ch * n)
                elif kind == "bighelp":
                    q["exp"].append(ch * BIG)
                elif kind == "perr":
                    q["exp"].append(ch.upper() * n)
                elif kind == "aerr":
                    q["exp"].append(str(ArgumentError(None, ch * n + "!")))
                elif kind in ("lock", "unlock"):
                    q["exp"].append("ok")
                elif kind == "apply":
                    q["napply"] = q.get("napply", 0) + 1
                    # the pool is locked (-> message-less PoolIsLocked, empty reply) or the group name comes back
                    q["exp"].append(None)
                elif kind == "flush":
                    if q["pending_flush"] is None and not cb_released[0]:
                        q["pending_flush"] = len(q["exp"])
                    q["exp"].append("ok")
                w.settle()
                if kind in ("help", "perr", "aerr", "bighelp") and (q["pending_flush"] is None or cb_released[0]):
                    if _snap(pool, w) != before:
                        w.fail(1804)
            w.settle()
            check()
        # end: release the callback, send EOF everywhere
        it.cb_release(0); cb_released[0] = True
        w.settle(); check()
        for q in sess:
            if not q["eof"]:
                q["eof"] = True
                q["rd"].feed(b"")
        w.settle(); check()
        for q in sess:
            if task_outcome(q["task"])[0] != "ok":
                w.fail(1807)
        code = w.err
        if _twin and not code:
            if len(sess[0]["wr"].out) >= 2 and len(sess[1]["wr"].out) >= 1 and sess[0]["pending_flush"] is not None:
                code = 77
        return code
    finally:
        w.close(code)


FKINDS = ("get", "flushF", "flush", "lock", "help", "gatherF", "nop")


def tpl_listenfail(k1, k2, k3, _twin=False):
    """One session on a pool in which a task has *failed* (callbacks done) and another is still running; K = 3 lines.
    A waiting method that re-raises the task's exception (flush / gather_and_close without return_exceptions) is a
    failing call like any other: its line is answered with the exception's text and the session goes on."""
    w = World("c18.listenfail")
    code = 0
    try:
        pool = TaskPool(pool_size=3, name="p")
        it = Interp(w, pool, cbkind=1)
        it.apply(2); w.settle()
        it.fail(1); w.settle()
        fault = str(w.W[1]["exc"])
        server = _Server(pool)
        rd, wr = _Reader(w), _Writer()
        s = ControlSession(server, rd, wr)
        s._parser = _StubParser(s, "a")
        task = w.spawn(s.listen())
        w.settle()
        exp = []
        forgotten = False        # a flush(return_exceptions=True) has forgotten the failed task
        closing = False          # a gather_and_close that raised leaves the pool locked, nothing else
        for k_ in (k1, k2, k3):
            kind = "nop"
            for j in range(len(FKINDS)):
                if k_ == j:
                    kind = FKINDS[j]
            w.op(kind)
            if kind == "nop":
                continue
            s._parser.plan.append((kind, 2))
            rd.feed(b"line\n")
            if kind == "get":
                exp.append(str(pool.num_running))
            elif kind == "flushF":
                exp.append("ok" if forgotten else fault)
            elif kind == "flush":
                exp.append("ok")
                forgotten = True
            elif kind == "lock":
                exp.append("ok")
            elif kind == "help":
                exp.append("aa")
            elif kind == "gatherF":
                if not forgotten:
                    exp.append(fault)
                elif w.live > 0:
                    exp.append(None)       # waits for the running task: no answer yet
                else:
                    exp.append("ok")
            w.settle()
            kind_, exc = task_outcome(task)
            if kind_ in ("exc", "cancelled"):
                code = code or 1803
            if exp and exp[-1] is None:
                # the session is waiting inside gather_and_close: nothing more is answered until the task ends
                if len(wr.out) != len(exp) - 1:
                    code = code or 1805
                it.release(0); w.settle()
                exp[-1] = "ok"
            if not code:
                if len(wr.out) != len(exp):
                    code = 1801
                else:
                    for got, e in zip(wr.out, exp):
                        if got != (e + "\n").encode():
                            code = code or 1802
        if not code:
            if task_outcome(task)[0] != "pending":
                code = 1806
            rd.feed(b"")
            w.settle()
            if task_outcome(task)[0] != "ok":
                code = 1807
        if _twin and not code and len(exp) == 3 and fault in exp and "ok" in exp:
            code = 77
        return code
    finally:
        w.close(code)


class _Line:
    """Stands for the bytes a client sent: decode() yields the (symbolic) text of the line."""

    def __init__(self, text):
        self.text = text

    def decode(self):
        return self.text


class _EchoParser:
    """Answers any token list the way the real parser answers unknown text: usage/error text, then ParserError."""

    def __init__(self, session):
        self.s = session
        self.calls = []
        self.stream = session._response_buffer

    def parse_args(self, tokens):
        self.calls.append(list(tokens))
        self.stream.write("usage")
        raise ParserError


def tpl_text(line, again, _twin=False):
    """One session; a first line of arbitrary printable text (symbolic str), then a well-formed line.
    The session's own tokenising (decode, strip, split) sits between the stream and the parser."""
    w = World("c18.text")
    code = 0
    try:
        pool = TaskPool(pool_size=2, name="p")
        server = _Server(pool)
        rd, wr = _Reader(w), _Writer()
        s = ControlSession(server, rd, wr)
        s._parser = _EchoParser(s)
        task = w.spawn(s.listen())
        w.settle()
        before = _snap(pool, w)
        w.op("text-line", len(line))
        rd.feed(_Line(line))
        w.settle()
        kind, exc = task_outcome(task)
        if kind in ("exc", "cancelled"):
            code = 1803
        elif kind == "ok":
            code = 1806
        elif len(wr.out) != 1:
            code = 1801
        elif wr.out[0] != b"usage\n":
            code = 1802
        elif _snap(pool, w) != before:
            code = 1804
        if not code:
            for k in range(again):
                rd.feed(b"num-running\n")
                w.settle()
            if task_outcome(task)[0] != "pending" or len(wr.out) != 1 + again:
                code = 1801
            rd.feed(b"")
            w.settle()
            if task_outcome(task)[0] != "ok":
                code = code or 1807
        if _twin and not code and len(line) >= 2 and len(s._parser.calls[0]) >= 2:
            code = 77
        return code
    finally:
        w.close(code)


def families(tier):
    thorough = tier == "thorough"
    nk = len(KINDS)
    P = ["s1", "k1", "n1", "s2", "k2", "n2", "s3", "k3", "n3", "s4", "k4", "n4"]
    pre = []
    for i in (1, 2, 3, 4):
        pre += ["0 <= s%d <= 1" % i, "0 <= k%d <= %d" % (i, nk), "0 <= n%d <= 3" % i]
    if not thorough:
        pre += ["k4 == %d" % nk, "n4 == 0", "s4 == 0", "s1 == 0", "s3 == 0", "n1 == 0 or n1 == 2", "n2 == 0 or n2 == 2", "n3 == 0 or n3 == 2",
                "k3 == 0 or k3 == 1 or 5 <= k3 <= 7 or k3 == %d" % nk, "k2 <= 10"]
        parts = parts_product(k1=(0, 1, 5, 11), k2=range(nk - 1))
    else:
        pre += ["k4 == %d" % nk, "n4 == 0", "s4 == 0", "s1 == 0", "s3 == 0"]
        parts = parts_product(k1=range(nk), k2=range(nk))
    lmax = 4 if thorough else 3
    nf = len(FKINDS) - 1
    famf = Family(name="listenfail", fn="tpl_listenfail", params=["k1", "k2", "k3"],
                  pre=["0 <= k1 <= %d" % nf, "0 <= k2 <= %d" % nf, "0 <= k3 <= %d" % nf],
                  parts=parts_product(k1=range(nf + 1)), twin_pre=["k1 == 1", "k2 == 2", "k3 == 1"], twin_args=[1, 2, 1])
    return [famf, Family(name="listen", fn="tpl_listen", params=P, pre=pre, parts=parts,
                   twin_pre=["k1 == 5", "k2 == 1", "k3 == 0", "s2 == 1", "s3 == 0"],
                   twin_args=[0, 5, 0, 1, 1, 2, 0, 0, 0, 0, nk, 0]),
            Family(name="text", fn="tpl_text", params=["line", "again"], types={"line": "str"},
                   pre=["1 <= len(line) <= %d" % lmax, "all(32 <= ord(c) < 127 for c in line)", "line.strip() != ''", "0 <= again <= 1"],
                   parts=[["len(line) == %d" % k] for k in range(1, lmax + 1)],
                   twin_pre=[], twin_args=["a b", 0])]
