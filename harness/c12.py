"""C12 A failing task or callback harms only itself."""
from asyncio_taskpool import TaskPool
from asyncio_taskpool.exceptions import PoolException
from engine.prog import Interp, parts_product
from engine.spec import Family
from engine.world import Excluded, World, task_outcome

ID = "C12"
CLAUSES = {
    1201: "other tasks / sibling / later requests did not proceed exactly as in the fault-free twin run",
    1202: "capacity lost or gained after a fault: an N-sized pool did not run exactly N of N+1 new tasks",
    1203: "flush()/gather_and_close(return_exceptions=False) raised something that is not an injected exception",
    1204: "flush()/gather_and_close(return_exceptions=True) raised",
    1205: "flush()/gather_and_close(return_exceptions=False) did not raise although a remembered task had failed",
    1206: "call-site fault: another invocation of the request (or of a sibling) did not happen",
    1207: "flush()/gather_and_close() never completed",
    1208: "flush()/gather_and_close() raised although nothing had failed",
    77: "reachability twin",
}
FUNCTIONS = ["BaseTaskPool._task_wrapper", "BaseTaskPool._task_ending", "BaseTaskPool._task_cancellation", "TaskPool._apply_spawner",
             "TaskPool._arg_consumer", "TaskPool._get_map_end_callback", "helpers.execute_optional", "BaseTaskPool.flush", "BaseTaskPool.gather_and_close"]


def _run(fault, size, kf, cb, fk, fi, c1, b1, c2, b2, c3, b3, fin, rx, tag):
    """One run of the scenario; fault=False is the twin with every fault replaced by normal completion."""
    w = World(tag)
    res = {"obs": [], "code": 0, "excluded": None, "fault_seen": False}
    try:
        pool = TaskPool(pool_size=size)
        re_, rc_ = ((fi,), ()) if (fault and fk == 2) else (((), (fi,)) if (fault and fk == 3) else ((), ()))
        itF = Interp(w, pool, cbkind=cb, raise_end=re_, raise_cancel=rc_)
        itS = Interp(w, pool, cbkind=0)
        itS.reqs = itF.reqs  # one numbering of requests

        def obs():
            # every task's progress, those of the faulty request included; only the faulted worker's own outcome
            # ('failed' instead of 'ok') is allowed to differ from the twin run
            s = [("ok" if x["state"] == "failed" else x["state"], x["args"], x["req"]) for x in w.W]
            res["obs"].append((tuple(s), pool.num_running, pool.num_cancelled, w.live))
        try:
            raising = (fi,) if (fault and fk == 1) else ()
            if kf == 0:
                F = itF.apply(3, args=(7, ("x",)), kwargs={"k": None}, raising=raising)    # non-string arguments: what error paths print
            elif kf == 1:
                F = itF.map(3, 2, bad=(fi if (fault and fk == 1) else -1))
            else:       # starmap whose faulty element cannot even be unpacked
                F = itF.map(3, 2, stars=1, bad=(fi if (fault and fk == 1) else -1), badkind=1)
            S = itS.apply(2, args=("S",))
            w.settle(); obs()
            for k, (c, b) in enumerate(((c1, b1), (c2, b2), (c3, b3))):
                if c == 0:
                    itF.release(b)
                elif c == 1:
                    if fault and fk == 0 and 0 <= b < len(w.W) and w.W[b]["req"] == F["idx"]:
                        itF.fail(b)        # only tasks of the faulty request ever fail
                    else:
                        itF.release(b)
                elif c == 2:
                    itF.cancel(b)
                elif c == 4:
                    itF.release(b, value=RuntimeError("returned, not raised"))
                w.settle(); obs()
                if k == 1:
                    L = itS.apply(2, args=("L",))
                    w.settle(); obs()
            # capacity probe, then finish everything
            w.drain(); obs()
            before = len(w.W)
            P = itS.apply(size + 1, args=("P",))
            w.settle()
            if len(w.W) - before != size or w.live != size:
                res["code"] = 1202
            w.drain()
            res["fault_seen"] = bool(w.injected)
            if not res["code"]:
                t = itF.flush(rx == 1) if fin == 0 else itF.gather_and_close(rx == 1)
                w.settle()
                kind, exc = task_outcome(t)
                if kind == "pending" or kind == "cancelled":
                    res["code"] = 1207
                elif kind == "exc":
                    if rx == 1:
                        res["code"] = 1204
                    elif not w.injected:
                        res["code"] = 1208
                    elif not any(exc is e for e in w.injected):
                        res["code"] = 1203
                elif rx == 0 and w.injected:
                    res["code"] = 1205
            if fault and fk == 1 and not res["code"]:
                nF = len(itF.workers_of(F))
                if nF != 3 - (1 if 0 <= fi < 3 else 0) or len(itS.workers_of(S)) != 2 or len(itS.workers_of(L)) != 2:
                    res["code"] = 1206
        except Excluded as e:
            res["excluded"] = str(e)
            w.excluded = str(e)
        res["code"] = res["code"] or w.err
        res["nW"] = len(w.W)
        return res
    finally:
        w.close(res["code"])


def tpl_fault(size, kf, cb, fk, fi, c1, b1, c2, b2, c3, b3, fin, rx, _twin=False):
    a = _run(True, size, kf, cb, fk, fi, c1, b1, c2, b2, c3, b3, fin, rx, "c12.fault")
    if a["excluded"]:
        return 0
    if a["code"]:
        return a["code"]
    if fk != 1:
        b = _run(False, size, kf, cb, fk, fi, c1, b1, c2, b2, c3, b3, fin, 1, "c12.twin")
        if b["excluded"]:
            return 0
        if b["code"]:
            return b["code"]
        if a["obs"] != b["obs"]:
            return 1201
    if _twin and a["fault_seen"] and a["nW"] >= 8:
        return 77
    return 0


def families(tier):
    thorough = tier == "thorough"
    P = ["size", "kf", "cb", "fk", "fi", "c1", "b1", "c2", "b2", "c3", "b3", "fin", "rx"]
    pre = ["1 <= size <= 3", "0 <= kf <= 2", "kf <= 1 or fk == 1", "1 <= cb <= 2", "0 <= fk <= 3", "0 <= fi <= 2", "0 <= c1 <= 4", "b1 >= 0", "0 <= c2 <= 4", "b2 >= 0",
           "0 <= c3 <= 4", "b3 >= 0", "0 <= fin <= 1", "0 <= rx <= 1"]
    if not thorough:
        pre += ["c3 == 3", "b3 == 0", "b1 <= 1", "b2 <= 1", "fi == 0", "size == 2", "cb == 2", "1 <= c2 <= 2 or c2 == 4", "c1 <= 2"]
        parts = parts_product(kf=(0, 1), fk=range(4), c1=range(3), fin=(0, 1)) + parts_product(kf=(2,), fk=(1,), c1=range(3), fin=(0, 1))
    else:
        pre += ["c3 == 3", "b3 == 0", "b1 <= 1", "b2 <= 1", "fi <= 1", "1 <= c2 <= 2 or c2 == 4", "c1 <= 2 or c1 == 4"]
        # sized to finish inside the wall budget: pool sizes 1 and 2 (3 adds nothing a 2-sized pool with three tasks does not show)
        pre += ["size <= 2"]
        parts = parts_product(kf=(0, 1), cb=(1, 2), fk=range(4), c1=range(3), fin=(0, 1), size=(1, 2)) + \
            parts_product(kf=(2,), cb=(1, 2), fk=(1,), c1=range(3), fin=(0, 1), size=(1, 2))
    return [Family(name="fault", fn="tpl_fault", params=P, pre=pre, parts=parts,
                   twin_pre=["kf == 0", "fk == 0", "c1 == 1", "fin == 0", "cb == 2"], twin_args=[2, 0, 2, 0, 0, 1, 0, 1, 1, 3, 0, 0, 0])]
