"""C17 (reduced scope) A command does exactly what the method call would do: namespace -> call -> reply stage."""
from inspect import getmembers, isfunction, signature, Parameter

from asyncio_taskpool import SimpleTaskPool, TaskPool
from asyncio_taskpool.control.session import ControlSession
from engine.prog import Interp, parts_product
from engine.spec import Family
from engine.world import World, task_outcome

ID = "C17"
CLAUSES = {
    1701: "reply differs from 'ok' / str(result) / str(exception) of the direct method call",
    1702: "the pool driven through the session differs observably from the twin driven by direct calls",
    1703: "the session raised instead of replying",
    1704: "harness: member list changed (no call table entry)",
    1705: "the command never replied although the direct call completed (or vice versa)",
    1706: "the argument conversion wrapper did not behave like a fresh cls(arg) call (value, freshness, SUPPRESS pass-through or error mapping)",
    77: "reachability twin",
}
FUNCTIONS = ["ControlSession._exec_method_and_respond", "ControlSession._exec_property_and_respond", "helpers.return_or_exception"]
ASSUMPTIONS = [
    "reduced scope: the text -> namespace stage (argparse tokenising, type= conversion, literal_eval, dotted paths) is outside the claim; the namespace is built by the harness from the method's signature with absent options at their defaults",
    "pool_size values are bounded to [-5, 999] because the reply passes through str(int)",
]


def members(cls):
    out = []
    for name, member in getmembers(cls):
        if name.startswith("_"):
            continue
        if isfunction(member) or isinstance(member, property):
            out.append((name, member))
    return out


MEMBERS = {0: members(TaskPool), 1: members(SimpleTaskPool)}
GROUPS = ("G", "nope", "H")


class _Server:
    client_class_name = "HarnessClient"

    def __init__(self, pool):
        self.pool = pool

    def is_serving(self):
        return True


def _observe(w, pool, tag):
    groups = sorted(pool._task_groups)
    return (pool.num_running, pool.num_cancelled, pool.num_ended, pool.is_locked, pool._closed.is_set(), pool.is_full,
            groups, [sorted(pool.get_group_ids(g)) for g in groups], pool._num_started,
            [(x["state"], x["cancels"], x["id"], x["args"], tuple(sorted(x["kw"]))) for x in w.W if x["req"][0] == tag])


def _setup(w, cls, tag):
    """Same history on both pools: group G with ids 0 (ended), 1 (cancelled->ended), 2 running, 3 waiting for room."""
    fn = w.worker((tag, "G"))
    if cls == 0:
        pool = TaskPool(pool_size=3, name="p")
        pool.apply(fn, num=4, group_name="G")
    else:
        pool = SimpleTaskPool(fn, pool_size=3, name="p")
        pool.start(4)
    return pool


def _table(name, pool, w, tag, k, i1, i2, i3, flag, g, n, setv, simple):
    """(namespace, direct) for member `name`: the namespace argparse would produce and the direct call it stands for."""
    msg = "m" if flag else None
    gname = None
    for j in range(len(GROUPS)):
        if g == j:
            gname = GROUPS[j] if not simple or j else "start-group-0"
    fn = w.worker((tag, "new"))
    ids = [i1, i2, i3][:k]
    if name == "cancel":
        return {"task_ids": ids, "msg": msg}, lambda: pool.cancel(*ids, msg=msg)
    if name == "cancel_group":
        return {"group_name": gname or "G", "msg": msg}, lambda: pool.cancel_group(gname or "G", msg)
    if name == "cancel_all":
        return {"msg": msg}, lambda: pool.cancel_all(msg)
    if name == "get_group_ids":
        names = [gname or "G", "H" if flag else "G"][:k]
        return {"group_names": names}, lambda: pool.get_group_ids(*names)
    if name in ("flush", "gather_and_close"):
        return {"return_exceptions": bool(flag)}, lambda: getattr(pool, name)(bool(flag))
    if name in ("lock", "unlock", "until_closed", "stop_all"):
        return {}, lambda: getattr(pool, name)()
    if name == "apply":
        return ({"func": fn, "args": (1,), "kwargs": None, "num": n, "group_name": gname, "end_callback": None, "cancel_callback": None},
                lambda: pool.apply(fn, (1,), None, n, gname, None, None))
    if name in ("map", "starmap", "doublestarmap"):
        it = {"map": [1, 2], "starmap": [(1,), (2,)], "doublestarmap": [{"a": 1}, {"a": 2}]}[name]
        key = {"map": "arg_iter", "starmap": "args_iter", "doublestarmap": "kwargs_iter"}[name]
        return ({"func": fn, key: list(it), "num_concurrent": n, "group_name": gname, "end_callback": None, "cancel_callback": None},
                lambda: getattr(pool, name)(fn, list(it), n, gname, None, None))
    if name == "start":
        return {"num": n}, lambda: pool.start(n)
    if name == "stop":
        return {"num": n}, lambda: pool.stop(n)
    return None, None


def tpl_cmd(cls, m, k, i1, i2, i3, flag, g, n, setv, lk=0, _twin=False):
    w = World("c17.cmd")
    code = 0
    try:
        name, member = None, None
        for j, (nm, mb) in enumerate(MEMBERS[cls]):
            if m == j:
                name, member = nm, mb
        if name is None:
            return 0
        w.op(("TaskPool." if cls == 0 else "SimpleTaskPool.") + name, k, i1, i2, i3, flag, g, n, setv)
        A, B = _setup(w, cls, "A"), _setup(w, cls, "B")
        w.settle()
        for tag in ("A", "B"):
            ws = [x for x in w.W if x["req"][0] == tag]
            ws[0]["gate"].set_exception(ValueError("boom"))      # a failed task: flush / gather-and-close re-raise it
        w.settle()
        A.cancel(1); B.cancel(1)
        w.settle()
        if lk == 1:          # same history, pools locked: spawning commands are refused with a message-less exception
            A.lock(); B.lock()
        if _observe(w, A, "A") != _observe(w, B, "B"):
            return 1702
        session = ControlSession(_Server(A), None, None)
        if isinstance(member, property):
            ns = {"value": setv} if (flag and member.fset is not None) else {}
            ta = w.spawn(session._exec_property_and_respond(member, **ns))
            if ns:
                def direct():
                    setattr(B, name, setv)
            else:
                def direct():
                    return getattr(B, name)
        else:
            ns, direct = _table(name, B, w, "B", k, i1, i2, i3, flag, g, n, setv, cls == 1)
            if ns is None:
                return 1704
            nsA, _ = _table(name, A, w, "A", k, i1, i2, i3, flag, g, n, setv, cls == 1)
            # every parameter of the method is present in the namespace, as argparse would deliver it
            for p in signature(member).parameters.values():
                if p.name != "self" and p.name not in nsA:
                    return 1704
            try:
                # exactly the call _parse_command makes: the command object first, the whole namespace as keywords
                ta = w.spawn(session._exec_method_and_respond(member, **nsA))
            except TypeError:
                return 1703     # a namespace key collides with the session method's own parameters

        async def run_direct():
            try:
                out = direct()
                if hasattr(out, "__await__"):
                    out = await out
            except Exception as e:  # noqa: BLE001
                out = e
            return "ok" if out is None else str(out)
        tb = w.spawn(run_direct())
        w.settle()
        ka, kb = task_outcome(ta), task_outcome(tb)
        if ka[0] == "exc":
            code = 1703
        elif ka[0] != kb[0]:
            code = 1705
        elif ka[0] == "ok":
            if session._response_buffer.getvalue() != tb.result():
                code = 1701
        if not code and _observe(w, A, "A") != _observe(w, B, "B"):
            code = 1702
        if not code:
            # let everything finish on both sides and compare again (waiting commands answer when their wait ends)
            w.drain()
            if _observe(w, A, "A") != _observe(w, B, "B"):
                code = 1702
            elif task_outcome(ta)[0] != task_outcome(tb)[0]:
                code = 1705
            elif task_outcome(ta)[0] == "ok" and session._response_buffer.getvalue() != tb.result():
                code = 1701
        if _twin and not code and task_outcome(ta)[0] == "ok" and session._response_buffer.getvalue() not in ("ok", ""):
            code = 77
        return code
    finally:
        w.close(code)


CONV_ARGS = ("[1, 2]", "7", "[]", "{'a': [1]}", "'ab'")   # the last one: an argument that is itself a quoted literal (round 17)


def tpl_conv(x1, a1, x2, a2, x3, a3, x4, a4, _twin=False):
    """Converted arguments: the wrappers argparse calls (`type=`) must behave like a fresh cls(arg) on every call.
    Steps: 0 convert CONV_ARGS[a] with the converter the parser uses for args/kwargs/iterables (literal_eval),
    1 mutate the last converted container (as a pool method or worker may), 2 SUPPRESS passes through,
    3 a constructor raising exception class a: ValueError/TypeError/ArgumentTypeError pass, others -> ArgumentTypeError."""
    from argparse import SUPPRESS, ArgumentTypeError
    from ast import literal_eval
    from asyncio_taskpool.control.parser import _get_arg_type_wrapper, _get_type_from_annotation
    from asyncio_taskpool.internals.types import ArgsT
    w = World("c17.conv")
    code = 0
    try:
        conv = _get_type_from_annotation(ArgsT)
        last = None
        nconv = 0
        for x, a in ((x1, a1), (x2, a2), (x3, a3), (x4, a4)):
            if x == 0:
                text = None
                for j in range(len(CONV_ARGS)):
                    if a == j:
                        text = CONV_ARGS[j]
                if text is None:
                    continue
                w.op("convert", text)
                try:
                    got = conv(text)
                except Exception:  # noqa: BLE001 - a well-formed literal must convert
                    code = code or 1706
                    continue
                nconv += 1
                if got != literal_eval(text) or (isinstance(got, (list, dict)) and got is last):
                    code = code or 1706
                last = got
            elif x == 1:
                w.op("mutate")
                if isinstance(last, list):
                    last.append(9)
                elif isinstance(last, dict):
                    last["z"] = 9
            elif x == 2:
                w.op("suppress")
                if conv(SUPPRESS) is not SUPPRESS:
                    code = code or 1706
            elif x == 3:
                excs = (ValueError, TypeError, ArgumentTypeError, KeyError, RuntimeError)
                cls_exc = None
                for j in range(len(excs)):
                    if a == j:
                        cls_exc = excs[j]
                if cls_exc is None:
                    continue
                w.op("raising", cls_exc.__name__)

                def ctor(arg, e=cls_exc):
                    raise e("boom")
                ctor.__name__ = "ctor"
                try:
                    _get_arg_type_wrapper(ctor)("v")
                    code = code or 1706
                except Exception as e:  # noqa: BLE001
                    want = cls_exc if cls_exc in (ValueError, TypeError, ArgumentTypeError) else ArgumentTypeError
                    if type(e) is not want:
                        code = code or 1706
        if _twin and not code and nconv >= 2:
            code = 77
        return code
    finally:
        w.close(code)


def families(tier):
    fams = []
    P = ["cls", "m", "k", "i1", "i2", "i3", "flag", "g", "n", "setv", "lk"]
    for cls in (0, 1):
        nm = len(MEMBERS[cls])
        pre = ["cls == %d" % cls, "0 <= m < %d" % nm, "0 <= k <= 3", "0 <= flag <= 1", "0 <= g <= 3", "-5 <= setv <= 999", "n <= 4", "0 <= lk <= 1"]
        parts = []
        spawners = [j for j, (n_, _) in enumerate(MEMBERS[cls]) if n_ in ("apply", "map", "starmap", "doublestarmap", "start")]
        pre = pre + ["lk == 0 or " + " or ".join("m == %d" % j for j in spawners)]
        for j, (n_, _) in enumerate(MEMBERS[cls]):
            if n_ == "cancel":
                for q in (["k <= 1"], ["k == 2", "i1 <= 1"], ["k == 2", "i1 >= 2"], ["k == 3", "i1 <= 0"], ["k == 3", "i1 == 1"],
                          ["k == 3", "i1 == 2"], ["k == 3", "i1 >= 3"]):
                    parts.append(["m == %d" % j] + q)
            else:
                parts.append(["m == %d" % j])
        fams.append(Family(name="cmd%d" % cls, fn="tpl_cmd", params=P, pre=pre, parts=parts,
                           twin_pre=["m == %d" % [i for i, (n_, _) in enumerate(MEMBERS[cls]) if n_ == "get_group_ids"][0], "k == 1", "g == 0"],
                           twin_args=[cls, [i for i, (n_, _) in enumerate(MEMBERS[cls]) if n_ == "get_group_ids"][0], 1, 0, 0, 0, 0, 0, 0, 0, 0]))
    fams.append(Family(name="conv", fn="tpl_conv", params=["x1", "a1", "x2", "a2", "x3", "a3", "x4", "a4"],
                       pre=["0 <= x1 <= 3", "0 <= a1 <= 4", "0 <= x2 <= 3", "0 <= a2 <= 4", "0 <= x3 <= 3", "0 <= a3 <= 4",
                            "0 <= x4 <= 3", "0 <= a4 <= 4"] + ([] if tier == "thorough" else ["x4 == 2", "a4 == 0", "x3 <= 1", "a3 <= 3"]),
                       parts=parts_product(x1=range(4), x2=range(4)), twin_pre=["x1 == 0", "x2 == 1", "x3 == 0"],
                       twin_args=[0, 0, 1, 0, 0, 0, 2, 0]))
    return fams
