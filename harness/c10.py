"""C10 Groups partition the tasks; names are unique and fresh."""
import re

from asyncio_taskpool import SimpleTaskPool, TaskPool
from asyncio_taskpool.exceptions import InvalidGroupName
from engine.prog import Interp, parts_product, refine, select
from engine.spec import Family
from engine.world import Excluded, World

ID = "C10"
CLAUSES = {
    1001: "get_group_ids(g) differs from the ids of the tasks created for g",
    1002: "get_group_ids(g1, g2) is not the union of the two groups",
    1003: "two live groups share a task id",
    1004: "a generated group name does not follow the documented pattern",
    1005: "a generated group name collided with a live group",
    1006: "get_group_ids(unknown) did not raise InvalidGroupName",
    1007: "a task belongs to no live group although its group was never cancelled",
    1008: "the pool knows a group no live request owns (a cancelled group came back) or lacks a live request's group",
    77: "reachability twin",
}
FUNCTIONS = ["BaseTaskPool.get_group_ids", "TaskPool._generate_group_name", "TaskPool.apply", "TaskPool._map",
             "SimpleTaskPool.start", "BaseTaskPool._start_task", "TaskGroupRegister.add"]

VOCAB = ("", "apply-fa-group-0", "map-fa-group-1", "x")
OPS = ("apply_u_fa", "apply_u_fb", "apply_named", "map_u_fa", "map_named", "starmap_u_fb", "dstarmap_u_fa", "cgroup", "rel", "flush", "cancel", "nop")
NOP = len(OPS) - 1


def _act(w, it, live_names, x, a):
    name = select(OPS, x)
    r = None
    gen = None
    if name == "apply_u_fa":
        r = it.apply(1, fname="fa"); gen = ("apply", "fa")
    elif name == "apply_u_fb":
        r = it.apply(2, fname="fb"); gen = ("apply", "fb")
    elif name == "apply_named":
        r = it.apply(1, group=select(VOCAB, a), fname="fa")
    elif name == "map_u_fa":
        r = it.map(2, 2, fname="fa"); gen = ("map", "fa")
    elif name == "map_named":
        r = it.map(2, 1, group=select(VOCAB, a), fname="fb")
    elif name == "starmap_u_fb":
        r = it.map(1, 1, stars=1, fname="fb"); gen = ("starmap", "fb")
    elif name == "dstarmap_u_fa":
        r = it.map(1, 1, stars=2, fname="fa"); gen = ("doublestarmap", "fa")
    elif name == "cgroup":
        it.cancel_group(a)
    elif name == "rel":
        it.release(a)
    elif name == "flush":
        it.flush(True)
    elif name == "cancel":
        it.cancel(a)        # accepted or refused (ended / unknown id): neither changes which group an id belongs to
    if r is None and gen is not None:
        w.fail(1005)        # an *unnamed* request was refused: the generated name collided (nothing else can refuse it here)
    if r is not None and gen is not None:
        if not re.match("^%s-%s-group-[0-9]+$" % gen, r["group"]):
            w.fail(1004)
        if r["group"] in live_names():
            w.fail(1005)


def tpl_names(size, p, k, x1, a1, x2, a2, _twin=False):
    """History first: p unnamed apply(fa) requests (generated indices 0 .. p-1), the k-th of them cancelled, one more
    unnamed apply(fa) (which may re-use the freed index); then two symbolic steps.  Generated names must keep following the
    pattern and never collide with a live group, whatever order the registry is in by now."""
    return tpl_groups(size, x1, a1, x2, a2, NOP, 0, NOP, 0, 9, _twin, (p, k))


def tpl_groups(size, x1, a1, x2, a2, x3, a3, x4, a4, t, _twin=False, pro=None):
    w = World("c10.names" if pro else "c10.groups")
    code = 0
    try:
        pool = TaskPool(pool_size=size)
        it = Interp(w, pool, cbkind=0)

        def live_names(exclude_last=True):
            rs = it.live_reqs()
            if exclude_last:
                rs = rs[:-1]
            return [r["group"] for r in rs]

        def idle():
            if not w.idle:
                return
            allids = {}
            live = it.live_reqs()
            if sorted(pool._task_groups) != sorted(r["group"] for r in live):
                w.fail(1008)
            for r in live:
                ids = pool.get_group_ids(r["group"])
                mine = {x["id"] for x in it.workers_of(r)}
                if ids != mine:
                    w.fail(1001)
                for i in ids:
                    if i in allids:
                        w.fail(1003)
                    allids[i] = r["idx"]
            if len(live) >= 2:
                u = pool.get_group_ids(live[0]["group"], live[-1]["group"])
                if u != pool.get_group_ids(live[0]["group"]) | pool.get_group_ids(live[-1]["group"]):
                    w.fail(1002)
            for r in live:
                for x in it.workers_of(r):
                    if x["id"] not in allids:
                        w.fail(1007)
            try:
                pool.get_group_ids("never-used")
                w.fail(1006)
            except InvalidGroupName:
                pass
        try:
            if pro:
                for _ in range(pro[0]):
                    _act(w, it, live_names, 0, 0); w.settle()
                it.cancel_group(pro[1]); w.settle()
                _act(w, it, live_names, 0, 0); w.settle(); idle()
            for k, (x, a) in enumerate(((x1, a1), (x2, a2), (x3, a3), (x4, a4))):
                _act(w, it, live_names, x, a)
                if k == 0:
                    w.ticks(t)
                else:
                    w.settle()
                    idle()
            w.settle()
            idle()
            w.drain()          # room is handed on task by task: a spawner that survived its group's cancellation shows now
            idle()
        except Excluded as e:
            w.excluded = str(e)
        code = w.err
        if _twin and not code and not w.excluded:
            if len(it.live_reqs()) >= 1 and len(w.W) >= 3 and any(r["cancelled"] for r in it.reqs):
                code = 77
        return code
    finally:
        w.close(code)


def tpl_start(size, n1, n2, n3, c, t, _twin=False):
    """SimpleTaskPool: start() names are start-group-<i>, never reused, also after a group was cancelled."""
    w = World("c10.start")
    code = 0
    try:
        pool = SimpleTaskPool(w.worker(0), pool_size=size)
        it = Interp(w, pool, cbkind=0)
        names = []
        try:
            for k, n in enumerate((n1, n2, n3)):
                r = it.start(n)
                if not re.match("^start-group-[0-9]+$", r["group"]):
                    code = code or 1004
                if r["group"] in names:
                    code = code or 1005
                names.append(r["group"])
                if k == 0:
                    w.ticks(t)
                    if c >= 0:
                        it.cancel_group(c)
                else:
                    w.settle()
            seen = set()
            for r in it.live_reqs():
                ids = pool.get_group_ids(r["group"])
                if len(ids) != min(r["num"], len(ids)) or (seen & ids):
                    code = code or 1003
                seen |= ids
            if size > 0 and not any(r["cancelled"] for r in it.reqs):
                if seen != {x["id"] for x in w.W}:
                    code = code or 1001
        except Excluded as e:
            w.excluded = str(e)
        code = code or w.err
        if _twin and not code and not w.excluded and len(w.W) >= 3:
            code = 77
        return code
    finally:
        w.close(code)


def families(tier):
    thorough = tier == "thorough"
    P = ["size", "x1", "a1", "x2", "a2", "x3", "a3", "x4", "a4", "t"]
    pre = ["size >= 0", "0 <= x1 < 7", "0 <= a1 < 4", "0 <= x2 <= %d" % NOP, "0 <= a2 < 4", "0 <= x3 <= %d" % NOP, "0 <= a3 < 4", "t >= 0"]
    if not thorough:
        pre += ["x4 == %d" % NOP, "a4 == 0", "size == 1 or size >= 6", "t >= 4", "a2 <= 2", "a3 <= 1",
                "x3 == 0 or x3 == 2 or x3 == 3 or x3 == 7 or x3 == 10 or x3 == %d" % NOP, "a1 <= 2"]
        parts = refine(parts_product(x1=range(7), x2=range(NOP)), ["x2 == 3", "x2 == 4"], "x3", (0, 2, 3, 7, 10, NOP))
    else:
        pre += ["x4 == %d" % NOP, "a4 == 0", "size <= 2 or size >= 6", "t >= 4"]
        parts = refine(parts_product(x1=range(7), x2=range(NOP)), ["x2 == %d" % k for k in range(7)], "x3", range(NOP + 1))
    return [
        Family(name="groups", fn="tpl_groups", params=P, pre=pre, parts=parts,
               twin_pre=["x1 == 1", "x2 == 3", "x3 == 7", "x4 == %d" % NOP], twin_args=[6, 1, 0, 3, 0, 7, 0, NOP, 0, 9]),
        Family(name="names", fn="tpl_names", params=["size", "p", "k", "x1", "a1", "x2", "a2"],
               pre=["size >= 6", "2 <= p <= 3", "0 <= k <= 2", "0 <= x1 <= %d" % NOP, "0 <= a1 < 4", "0 <= x2 <= %d" % NOP, "0 <= a2 < 4"] +
                   ([] if thorough else ["x1 == 0 or x1 == 2 or x1 == 3 or x1 == 7", "x2 == 0 or x2 == 3 or x2 == %d" % NOP, "a1 <= 2", "a2 <= 1"]),
               parts=parts_product(p=(2, 3), k=(0, 1, 2)), twin_pre=["p == 2", "k == 0", "x1 == 0"], twin_args=[6, 2, 0, 0, 0, 0, 0]),
        Family(name="start", fn="tpl_start", params=["size", "n1", "n2", "n3", "c", "t"],
               pre=["size >= 0", "0 <= n1 <= 2", "0 <= n2 <= 2", "0 <= n3 <= 2", "-1 <= c <= 1", "t >= 0"],
               parts=parts_product(n1=range(3), c=(-1, 0, 1)), twin_pre=["n1 == 2", "c == -1"], twin_args=[3, 2, 1, 0, -1, 9]),
    ]
