#!/bin/sh
# usage: tools/benigntest.sh <name> <PROPERTY>...
# Applies the behaviour-preserving change /verif/seeded/benign/<name>.diff to a scratch worktree of /repo (never to /repo
# itself), runs the quick checks against it (VERIF_REPO) and removes the worktree.  Every check must exit 0.
NAME="$1"; shift
WT="/tmp/wt/benign_$NAME"
git -C /repo worktree add --detach -f "$WT" HEAD >/dev/null 2>&1 || exit 2
git -C "$WT" apply "/verif/seeded/benign/$NAME.diff" || { git -C /repo worktree remove --force "$WT"; exit 2; }
export VERIF_WORK="/tmp/wt/work_$NAME" VERIF_EVIDENCE="/tmp/wt/evid_$NAME"   # keep /verif/evidence for runs against /repo
for P in "$@"; do
  ( cd "${VERIF_HOME:-/verif}" && VERIF_REPO="$WT" ./vcheck "$P" --tier "${TIER:-quick}" > "/tmp/benign_${NAME}_$P.log" 2>&1; echo "$NAME $P exit=$? $(grep -c '^VIOLATION' /tmp/benign_${NAME}_$P.log) violations; $(grep -m1 -A1 '^VIOLATION\|^HARNESS' /tmp/benign_${NAME}_$P.log | tail -1 | cut -c1-200)" )
done
git -C /repo worktree remove --force "$WT"; git -C /repo worktree prune; rm -rf "$VERIF_WORK" "$VERIF_EVIDENCE"
