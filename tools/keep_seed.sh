#!/bin/sh
# usage: tools/keep_seed.sh <PROPERTY> <seed-name> <worktree>
# Confirms a sub-agent's change (tests pass with it, demo fails with it and passes without it) and stores it
# as /verif/seeded/<seed-name>/{patch.diff,demo.py,meta.json}.  Does not touch /repo.
set -e
PID="$1"; NAME="$2"; WT="$3"
OUT="/verif/seeded/$NAME"; mkdir -p "$OUT"
git -C "$WT" diff -- src > "$OUT/patch.diff"
[ -s "$OUT/patch.diff" ] || { echo "empty patch"; exit 1; }
cp "$WT/demo.py" "$OUT/demo.py"
cd "$WT"
T=$(PYTHONPATH="$WT/src" /venv/bin/python -m pytest -q -p no:cacheprovider 2>&1 | tail -1)
set +e
PYTHONPATH="$WT/src" timeout 120 /venv/bin/python "$WT/demo.py" > "$OUT/demo_with.txt" 2>&1; RW=$?
git -C "$WT" stash -q
PYTHONPATH="$WT/src" timeout 120 /venv/bin/python "$WT/demo.py" > "$OUT/demo_without.txt" 2>&1; RO=$?
git -C "$WT" stash pop -q
set -e
echo "tests: $T"; echo "demo with change: exit $RW; without: exit $RO"
python3 - "$PID" "$NAME" "$T" "$RW" "$RO" <<'PY'
import json, sys
pid, name, t, rw, ro = sys.argv[1:6]
p = "/verif/seeded/%s/meta.json" % name
try: meta = json.load(open(p))
except Exception: meta = {}
meta.update({"property": pid, "name": name, "tests_with_change": t.strip(), "demo_exit_with_change": int(rw), "demo_exit_without_change": int(ro),
             "confirmed": ("112 passed" in t and int(rw) != 0 and int(ro) == 0)})
meta.setdefault("needs", "")
meta.setdefault("ran", "tools/keep_seed.sh: pytest in the scratch worktree with the change; demo.py with and without the change")
json.dump(meta, open(p, "w"), indent=1)
print("confirmed:", meta["confirmed"])
PY
