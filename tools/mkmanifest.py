#!/usr/bin/env python3
"""Regenerate /verif/MANIFEST.json from the table below (keeps it valid at all times)."""
import json, os
HERE = os.path.dirname(os.path.dirname(os.path.abspath(__file__)))

TECH = "bounded symbolic execution of the real pool code (CrossHair/z3) inside a harness-stepped real asyncio loop; verdict = CrossHair 'Confirmed over all paths' per partition, counterexamples replayed concretely"
NOTE = ("Trusted: CrossHair 0.0.110 + z3 5.1.0, CPython 3.12.1 asyncio, the World driver and the stubs listed in the evidence "
        "file's assumptions (constant clock, no I/O, logging off, format() stubs). Holds for every value of the symbolic integers "
        "within the pre: bounds recorded in the evidence (coverage.bounds); longer programs, more tasks, timers, threads, other loops are outside the claim. "
        "Partitions that run out of budget are reported as inconclusive, not as success.")

CHECKS = {
    "C01": ("Pool-size bound (live workers, num_running, is_full at idle) on every path of bounded programs over spawn/finish/fail/cancel/group-cancel/flush ops, any boundary placement t and any user-code site, pool size an unbounded symbolic integer (incl. 0 and the default).", "5 C01"),
    "C02": ("No task/slot lost: idle accounting (num_running, num_cancelled, free room) and end-of-run capacity probe on every path of bounded programs incl. slow callbacks and concurrent flushes; T1 histories excluded while that finding is open.", "5 C02"),
    "C03": ("Lifecycle/callback exactness (conservation, R->E / R->C->E, exactly-once ordered callbacks, coroutine callbacks completed) on every path of bounded programs for six callback kinds (none, plain, coroutine, slow coroutine, wraps-adapter, falsy callable object) and for tasks that finish inside their first step; T1 excluded while open.", "5 C03"),
    "C04": ("apply/start run exactly num invocations with the request's own args/kwargs and group, for symbolic size, num, shape, raising call site, competing request and lock/unlock/gather/cancel interleavings; T1/T2 excluded while open.", "5 C04"),
    "C05": ("map family: per-call concurrency bound, one-element look-ahead, work conservation at idle, element-wise ordered delivery with the raising element skipped, for symbolic L, num_concurrent (unbounded), size (unbounded), star variant; T1 excluded while open.", "5 C05"),
    "C06": ("cancel(ids): error class of the first offending id from harness-side state, all-or-nothing delivery, exactly-once CancelledError for named tasks, ids unbounded symbolic, arity <= 3; T1 excluded while open.", "5 C06"),
    "C07": ("cancel_group/cancel_all: nothing of the group starts or is pulled afterwards, every unfinished member cancelled once, group forgotten and name free, siblings complete; placements: boundary t after request / after a hand-off, worker start, end and cancel callbacks; T1 excluded while open.", "5 C07"),
    "C08": ("gather_and_close: returns only when all requested work (incl. map elements) is done, returns normally without faults, until_closed never earlier, closed afterwards; prefix x completion-order programs; T1/T2/T3 excluded while open.", "5 C08"),
    "C09": ("Rejected requests (locked/closed/non-coroutine/num_concurrent<1 unbounded/duplicate group/negative size unbounded) raise a matching error and leave an identical observable snapshot; lock/unlock idempotent; unlock restores acceptance.", "5 C09"),
    "C10": ("Group membership == ids seen by the request's own workers, union, disjointness, generated-name pattern and freshness (incl. explicit names that imitate generated ones), unknown name error; bounded programs of named/unnamed requests and group cancels.", "5 C10"),
    "C11": ("Ids increase by one in creation order per pool, never reused across flushes, task name == '<pool>_Task-<id>', callback id == id in its task's name, several pools of both classes in one loop (named incl. digits-only, unnamed, two simple pools on one function) counted independently, unnamed pools distinctly named.", "5 C11"),
    "C12": ("Fault containment: worker, call-site, end-callback and cancel-callback faults vs. a fault-free twin run in the same path (sibling and later requests observe identical traces), capacity probe, flush/gather raise exactly an injected exception or nothing.", "5 C12"),
    "C13": ("flush never forgets a running task or one inside its callbacks, forgets everything finished before the call, flush(True) never raises, no end callback lost; overlapping flushes with slow callbacks. The T4 defect found here is repaired (fix: 0a23838).", "5 C13"),
    "C14": ("stop(n) for unbounded n / stop_all(): returned ids == the min(n, running) newest running ids descending, exactly those cancelled once, others untouched, over histories with gaps.", "5 C14"),
    "C15": ("pool_size getter/setter: negative value rejected with nothing changed from every state; reads/assignments with no slot in use fully checked (old/new unbounded); reads/assignments with tasks in flight are the open findings T5/T6.", "5 C15"),
    "C17": ("Reduced scope (namespace -> call -> reply, plus the argument-conversion wrappers): for every public member of both pool classes, on open and on locked pools, the session's reply and the served pool equal a twin driven by the direct call (ints symbolic); conversion wrappers behave like a fresh cls(arg). argparse's own tokenising/dispatch is outside the claim. The T7 defect found here is repaired (fix: de325bc).", "5 C17, 10.5"),
    "C18": ("Reduced scope (listen-loop kernel with a contract-obeying stub parser that keeps the stream it was built with): one reply per line, own output only (stale/foreign/long text), waiting commands answered after their wait, no exception leaves listen(), malformed lines leave the pool unchanged, two sessions; plus a symbolic str line (len <= 3/4) through the session's own decode/strip/split. The real argparse text level is outside the claim.", "5 C18, 10.5"),
    "C20": ("Queue context manager: a fresh join() completes iff puts == exited blocks after every step of bounded producer/consumer/failure/cancel programs, maxsize unbounded symbolic, no ValueError, each item to one block.", "5 C20"),
}
NA = {
    "C16": "solver-based checking does not apply: the quantifier is a finite configuration set (2 classes x their members) with no input domain to generalise over; the only numeric input (terminal width) is realised by argparse's '%*s' formatting, so every path is one concrete run (enumeration, not a solver verdict). DESIGN.md section 6. (On this tree the handshake fails for every real pool class: finding F-C16, DESIGN.md section 7.)",
    "C19": "solver-based checking does not apply: the behaviour lives in the OS socket layer, the selector and a client subprocess; socket readiness is not a function of loop iterations, so paths are not replayable for CrossHair (NotDeterministic) and nothing in the property is a symbolic input. DESIGN.md section 6.",
}

def main():
    checks = []
    for pid, (text, ref) in sorted(CHECKS.items()):
        checks.append({
            "property_id": pid,
            "quick_cmd": "./vcheck %s --tier quick" % pid,
            "thorough_cmd": "./vcheck %s --tier thorough" % pid,
            "evidence_file": "/verif/evidence/%s.json" % pid,
            "replay_cmd_template": "./vcheck %s --replay {path}" % pid,
            "engine": "crosshair-world",
            "level_claimed": {"category": "model_checking", "text": text, "design_ref": "DESIGN.md section " + ref},
            "level_note": NOTE,
            "technique": TECH,
        })
    all_ids = ["C%02d" % i for i in range(1, 21)]
    na = []
    for pid in all_ids:
        if pid in CHECKS:
            continue
        na.append({"property_id": pid, "reason": NA.get(pid, "check not built yet in this revision (work in progress); see DESIGN.md")})
    m = {
        "version": 1,
        "setup_cmd": "./setup.sh",
        "hooks": {
            "guard": "ASYNCIO_TASKPOOL_VERIF",
            "enable": "no source hooks are needed: harnesses observe through the public API, harness-owned workers/callbacks/iterators and reads of the private registries the properties' anchors name",
            "baseline_off_cmd": "cd /repo && /venv/bin/python -m pytest -ra -q -p no:cacheprovider --timeout=900",
            "source_commits": [],
            "add_only": True,
        },
        "engines": [{"name": "crosshair-world", "path": "/verif/engine", "serves_properties": sorted(CHECKS),
                     "kind_free_text": "CrossHair (symbolic execution of CPython byte code, z3) over the repository's own functions running in a real asyncio loop stepped by the harness"}],
        "checks": checks,
        "not_applicable": na,
        "notes": "Exit codes: 0 held / 1 VIOLATION (replayed on DetLoop and stock SelectorEventLoop) / 2 harness error. VERIF_TIER and VERIF_SEED honoured; the seed only permutes scheduling and sample choice.",
    }
    json.dump(m, open(os.path.join(HERE, "MANIFEST.json"), "w"), indent=1)

if __name__ == "__main__":
    main()
