#!/usr/bin/env python3
"""Regenerate /verif/MANIFEST.json from the table below (keeps it valid at all times)."""
import json, os
HERE = os.path.dirname(os.path.dirname(os.path.abspath(__file__)))

TECH = "bounded symbolic execution of the real pool code (CrossHair/z3) inside a harness-stepped real asyncio loop; verdict = CrossHair 'Confirmed over all paths' per partition, counterexamples replayed concretely"
NOTE = ("Trusted: CrossHair 0.0.110 + z3 5.1.0, CPython 3.12.1 asyncio, the World driver and the stubs listed in the evidence "
        "file's assumptions (constant clock, no I/O, logging off, format() stubs). Holds for every value of the symbolic integers "
        "within the pre: bounds recorded in the evidence (coverage.bounds); longer programs, more tasks, timers, threads, other loops are outside the claim. "
        "Partitions that run out of budget are reported as inconclusive, not as success.")

CHECKS = {
    "C01": ("Pool size bound under every program of the bounded alphabet, every boundary/site placement, pool size unbounded symbolic (incl. 0 and default).", "5 C01"),
}
NA = {
}

def main():
    checks = []
    for pid, (text, ref) in sorted(CHECKS.items()):
        checks.append({
            "property_id": pid,
            "quick_cmd": "./vcheck %s --tier quick" % pid,
            "thorough_cmd": "./vcheck %s --tier thorough" % pid,
            "evidence_file": "/verif/evidence/%s.json" % pid,
            "replay_cmd_template": "./vcheck %s --replay {path}" % pid,
            "engine": "crosshair-world",
            "level_claimed": {"category": "model_checking", "text": text, "design_ref": "DESIGN.md section " + ref},
            "level_note": NOTE,
            "technique": TECH,
        })
    all_ids = ["C%02d" % i for i in range(1, 21)]
    na = []
    for pid in all_ids:
        if pid in CHECKS:
            continue
        na.append({"property_id": pid, "reason": NA.get(pid, "check not built yet in this revision (work in progress); see DESIGN.md")})
    m = {
        "version": 1,
        "setup_cmd": "./setup.sh",
        "hooks": {
            "guard": "ASYNCIO_TASKPOOL_VERIF",
            "enable": "no source hooks are needed: harnesses observe through the public API, harness-owned workers/callbacks/iterators and reads of the private registries the properties' anchors name",
            "baseline_off_cmd": "cd /repo && /venv/bin/python -m pytest -ra -q -p no:cacheprovider --timeout=900",
            "source_commits": [],
            "add_only": True,
        },
        "engines": [{"name": "crosshair-world", "path": "/verif/engine", "serves_properties": sorted(CHECKS),
                     "kind_free_text": "CrossHair (symbolic execution of CPython byte code, z3) over the repository's own functions running in a real asyncio loop stepped by the harness"}],
        "checks": checks,
        "not_applicable": na,
        "notes": "Exit codes: 0 held / 1 VIOLATION (replayed on DetLoop and stock SelectorEventLoop) / 2 harness error. VERIF_TIER and VERIF_SEED honoured; the seed only permutes scheduling and sample choice.",
    }
    json.dump(m, open(os.path.join(HERE, "MANIFEST.json"), "w"), indent=1)

if __name__ == "__main__":
    main()
