#!/usr/bin/env python3
"""Static sanity of the family tables: twin_args satisfy pre + twin_pre and reach code 77; every partition is
consistent with pre syntactically (evaluable)."""
import importlib, os, sys
os.environ["VERIF_REPLAY"] = "1"
sys.path[:0] = ["/repo/src", os.path.dirname(os.path.dirname(os.path.abspath(__file__)))]
bad = 0
for i in [1, 2, 3, 4, 5, 6, 7, 8, 9, 10, 11, 12, 13, 14, 15, 17, 18, 20]:
    m = importlib.import_module("harness.c%02d" % i)
    for tier in ("quick", "thorough"):
        for f in m.families(tier):
            env = dict(zip(f.params, f.twin_args))
            for p in list(f.pre) + list(f.twin_pre):
                if not eval(p, {}, dict(env)):
                    print("C%02d %s %s: twin_args violate %r" % (i, tier, f.name, p)); bad += 1
            r = getattr(m, f.fn)(*f.twin_args, _twin=True)
            if r != 77:
                print("C%02d %s %s: twin_args give %r" % (i, tier, f.name, r)); bad += 1
            for part in f.parts:
                for p in part:
                    compile(p, "<pre>", "eval")
print("problems:", bad)
sys.exit(1 if bad else 0)
