#!/usr/bin/env python3
"""Print the sub-agent brief for one property (text of the property only, nothing from /verif's machinery)."""
import json, sys
pid = sys.argv[1]; wt = sys.argv[2]
for l in open('/verif/properties.jsonl'):
    p = json.loads(l)
    if p['id'] == pid:
        break
print(f"""You are working in a scratch git worktree of the open-source Python library asyncio-taskpool at {wt} (library source under {wt}/src/asyncio_taskpool, tests under {wt}/tests). Work ONLY inside {wt}; do not touch /repo or /verif and do not read anything under /verif.

Here is a semantic property the library is supposed to satisfy:

  {p['id']} - {p['title']}
  Statement: {p['statement']}
  Quantifier: {p['quantifier']['text']}

Your task: make a small, realistic change to the library source (the kind of regression a maintainer could plausibly introduce in a refactor or 'optimisation') that BREAKS this property, while the library still imports and the existing test suite still passes unchanged. The change must need something specific to manifest - a particular interleaving, a fault at a particular point, a multi-step sequence of operations, an unusual input value, or two cooperating sites that each look fine alone - not something ordinary use would expose at once. Do not edit the tests.

Run the existing tests with:  cd {wt} && PYTHONPATH={wt}/src /venv/bin/python -m pytest -q -p no:cacheprovider
(PYTHONPATH is essential: without it the interpreter imports the library from /repo instead of your worktree.) All 112 tests must pass with your change.

Also write a demonstration: a small standalone script {wt}/demo.py that uses only the public API (plus asyncio), run as  PYTHONPATH={wt}/src /venv/bin/python {wt}/demo.py , which exits 0 (prints PASS) on the unmodified library and exits 1 (prints FAIL and what went wrong) with your change. Check both: use `git stash` / `git stash pop` (or `git diff > /tmp/x.diff; git checkout -- src; ...; git apply`) to run the demo against the unmodified source. The demo must be deterministic (no real sleeping beyond asyncio.sleep(0)-style yields or very short sleeps, no network).

When done, leave the worktree with your source change applied (uncommitted) and demo.py present, and reply with: (1) a one-paragraph description of the change and exactly what is needed for it to manifest, (2) the output of `git -C {wt} diff -- src`, (3) the demo's output with and without the change, (4) the tail of the pytest run. No network access is available; everything needed is installed.""")
