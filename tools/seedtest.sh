#!/bin/sh
# usage: tools/seedtest.sh <seed-name> <PROPERTY>...
# Applies the seeded change to a scratch worktree of /repo (never to /repo itself), runs the quick checks against it
# (VERIF_REPO; scratch and evidence directories of its own) and removes the worktree again.
NAME="$1"; shift
WT="/tmp/wt/seed_$NAME"
git -C /repo worktree add --detach -f "$WT" HEAD >/dev/null 2>&1 || exit 2
git -C "$WT" apply "/verif/seeded/$NAME/patch.diff" || { git -C /repo worktree remove --force "$WT"; exit 2; }
export VERIF_WORK="/tmp/wt/work_$NAME" VERIF_EVIDENCE="/tmp/wt/evid_$NAME"
for P in "$@"; do
  ( cd "${VERIF_HOME:-/verif}" && VERIF_REPO="$WT" ./vcheck "$P" --tier "${TIER:-quick}" > "/tmp/seedtest_${NAME}_$P.log" 2>&1; echo "$NAME $P exit=$? $(grep -c '^VIOLATION' /tmp/seedtest_${NAME}_$P.log) violations; $(grep -m1 -A1 '^VIOLATION' /tmp/seedtest_${NAME}_$P.log | tail -1)" )
done
git -C /repo worktree remove --force "$WT"; git -C /repo worktree prune; rm -rf "$VERIF_WORK" "$VERIF_EVIDENCE"
