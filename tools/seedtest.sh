#!/bin/sh
# usage: tools/seedtest.sh <seed-name> <PROPERTY>...   -- apply the seeded change to /repo, run the quick checks, undo.
NAME="$1"; shift
git -C /repo diff --quiet || { echo "/repo has local changes"; exit 2; }
git -C /repo apply "/verif/seeded/$NAME/patch.diff" || exit 2
for P in "$@"; do
  ( cd /verif && ./vcheck "$P" --tier "${TIER:-quick}" > "/tmp/seedtest_${NAME}_$P.log" 2>&1; echo "$NAME $P exit=$? $(grep -c '^VIOLATION' /tmp/seedtest_${NAME}_$P.log) violations; $(grep -m1 -A1 '^VIOLATION' /tmp/seedtest_${NAME}_$P.log | tail -1)" )
done
git -C /repo checkout -- .
