#!/usr/bin/env python3
"""Replay every witness in known_findings.json concretely (all triggers closed) and compare with its recorded clause."""
import importlib, json, os, sys
os.environ["VERIF_REPLAY"] = "1"
os.environ["VERIF_OPEN_TRIGGERS"] = ""
sys.path[:0] = ["/repo/src", os.path.dirname(os.path.dirname(os.path.abspath(__file__)))]
bad = 0
for f in json.load(open(os.path.join(sys.path[1], "known_findings.json")))["findings"]:
    w = f["witness"]
    m = importlib.import_module(w["module"])
    got = getattr(m, w["fn"])(*w["args"])
    ok = got == w["code"]
    bad += not ok
    print("%-8s %-4s %s%s -> %s (recorded %s) %s" % (f["id"], f["property"], w["fn"], tuple(w["args"]), got, w["code"], "ok" if ok else "STALE"))
sys.exit(1 if bad else 0)
