#!/usr/bin/env python3
"""Print a markdown summary of every harness family (symbolic parameters, bounds, partitions) per tier."""
import importlib, os, sys
os.environ["VERIF_REPLAY"] = "1"
sys.path[:0] = ["/repo/src", os.path.dirname(os.path.dirname(os.path.abspath(__file__)))]
print("| property | tier | family | symbolic parameters | bounds (`pre:`) | partitions |")
print("|---|---|---|---|---|---|")
for i in [1, 2, 3, 4, 5, 6, 7, 8, 9, 10, 11, 12, 13, 14, 15, 17, 18, 20]:
    m = importlib.import_module("harness.c%02d" % i)
    for tier in ("quick", "thorough"):
        for f in m.families(tier):
            pre = "; ".join(f.pre)
            print("| C%02d | %s | %s | %s | %s | %d |" % (i, tier, f.name, " ".join(f.params), pre.replace("|", "\\|"), len(f.parts)))
