"""World: a real asyncio loop stepped by the harness, harness-owned user code, triggers, path log.

Runs unchanged under CrossHair (symbolic ints flow through it) and in a plain
interpreter (replay).  See DESIGN.md section 2.1.
"""
from __future__ import annotations

import asyncio
import builtins
import inspect
import logging
import os
import sys
import threading
import warnings
from asyncio import base_events, events

try:  # available in the overlay venv only
    from crosshair.tracers import NoTracing
    from crosshair.libimpl.builtinslib import SymbolicInt as _SymInt
except Exception:  # pragma: no cover - plain interpreter without crosshair
    class NoTracing:  # type: ignore
        def __enter__(self):
            return self

        def __exit__(self, *a):
            return False

    class _SymInt:  # type: ignore
        pass

try:
    from crosshair.util import ControlFlowException as _CF, NotDeterministic as _ND
    from crosshair.tracers import TraceException as _TE
    CONTROL = (_CF, _ND, _TE)
except Exception:  # pragma: no cover
    CONTROL = ()

from asyncio_taskpool import SimpleTaskPool, TaskPool  # noqa: E402
from asyncio_taskpool.exceptions import PoolException  # noqa: E402
from asyncio_taskpool.pool import BaseTaskPool  # noqa: E402

warnings.simplefilter("ignore")
sys.unraisablehook = lambda *a: None

REPLAY = os.environ.get("VERIF_REPLAY") == "1"
LOOP_KIND = os.environ.get("VERIF_LOOP", "det")


class _MemHandler(logging.Handler):
    """Replay only: format every record (as a real handler would) and keep it in memory."""

    def __init__(self):
        super().__init__()
        self.lines = []

    def emit(self, record):
        try:
            self.lines.append(self.format(record))
        except Exception as e:  # a formatting error in the library's own log call
            self.lines.append("LOGFORMAT-ERROR %r" % (e,))


MEMLOG = None
if REPLAY:
    logging.disable(logging.NOTSET)
    MEMLOG = _MemHandler()
    _root = logging.getLogger("asyncio_taskpool")
    _root.addHandler(MEMLOG)
    _root.setLevel(logging.DEBUG)
    _root.propagate = False
else:
    # CrossHair makes time.* symbolic; a LogRecord reads the clock and would abort every path.
    logging.disable(logging.CRITICAL)


class _NullSelector:
    def select(self, timeout=None):
        return []

    def close(self):
        pass


class DetLoop(base_events.BaseEventLoop):
    """The real BaseEventLoop (ready queue, call_soon, Task/Future wiring) with no I/O and a constant clock."""

    def __init__(self):
        super().__init__()
        self._selector = _NullSelector()

    def time(self):
        return 0.0

    def _process_events(self, event_list):
        pass

    def _write_to_self(self):
        pass


class CallbackFault(TypeError):
    """What harness callbacks raise on purpose: a TypeError subclass, so that code which catches TypeError for its
    own reasons (awaiting a non-awaitable, binding arguments) is exercised with a user exception of that type."""


class CoroProxy(__import__("collections").abc.Coroutine):
    """A coroutine *object* that is not a native one (instrumentation wrappers, Cython coroutines): asyncio accepts any
    collections.abc.Coroutine."""

    def __init__(self, inner):
        self._c = inner

    def send(self, v):
        return self._c.send(v)

    def throw(self, *a):
        return self._c.throw(*a)

    def close(self):
        return self._c.close()

    def __await__(self):
        return self._c.__await__()


class Excluded(Exception):
    """An open known-finding trigger fired: the history is outside the claim while the finding is open."""


class HarnessError(Exception):
    """The harness itself is broken (never a property verdict)."""


def unstarted(task) -> bool:
    return inspect.getcoroutinestate(task.get_coro()) == inspect.CORO_CREATED


def cstr(v) -> str:
    """Concrete rendering of a possibly symbolic int for the op trace (never constrains the path)."""
    with NoTracing():
        if type(v) is int or type(v) is bool:
            return str(v)
        if v is None:
            return "-"
        if isinstance(v, (str, tuple, list)):
            return str(v)
        return "?"


def plog(msg: str) -> None:
    fd = getattr(builtins, "_verif_log_fd", None)
    if fd is None:
        return
    with NoTracing():
        os.write(fd, (msg + "\n").encode())


OPEN_TRIGGERS = frozenset(x for x in os.environ.get("VERIF_OPEN_TRIGGERS", "").split(",") if x)


class World:
    SETTLE_LIMIT = 400

    def __init__(self, harness: str = "?"):
        BaseTaskPool._pools.clear()
        if LOOP_KIND == "stock":
            self.loop = asyncio.SelectorEventLoop()
        else:
            self.loop = DetLoop()
        self._ctrl = None        # a CrossHair control-flow exception swallowed by asyncio (Task.__step / Handle._run)
        self._tasks = []         # every task created on the loop
        self._checked = 0
        self.loop.set_exception_handler(self._exc_handler)
        self.loop.set_task_factory(self._task_factory)
        events._set_running_loop(self.loop)
        self.loop._thread_id = threading.get_ident()
        self.open = OPEN_TRIGGERS
        self.harness = harness
        self.trace = []          # concrete op trace (strings)
        self.W = []              # worker records, in start order
        self.live = 0
        self.peak = 0
        self.cb = []             # callback records
        self.slow = []           # [kind, id, future] gates of slow callbacks, creation order
        self.incb = set()        # ids currently inside a user callback
        self.err = 0             # first failing clause
        self.excluded = None     # trigger name if an embedded op hit an open trigger
        self.monitors = []       # callables run after every loop iteration
        self.armed = {}          # site -> list of thunks (embedded ops)
        self.iterations = 0
        self.calls = {}          # req -> number of func calls (incl. raising ones)
        self.extra_tasks = []    # harness-created tasks (flush/gather/waiters)
        self.evals = 0           # monitor evaluations (vacuity witness)
        self.injected = []       # exception objects raised by harness-owned user code on purpose
        self.selfret = [None]    # a pool: the next worker to start cancels its own task in that pool and returns at once
        self.instant = []        # per worker start, in start order: 0 = block on the gate (default), 1 = return at once,
                                 # 2 = raise at once - a coroutine that finishes before its first suspension
        self.unstarted_cancelled_spawners = []   # T3: spawner tasks that were cancelled before their first step
        plog("E %s" % harness)

    # ------------------------------------------------------------------ lifecycle
    def close(self, code=None):
        with NoTracing():
            pass
        if code is not None:
            if self.excluded:
                plog("X %s %s" % (self.excluded, "|".join(self.trace)))
            else:
                plog("C %s %s" % (cstr(code), "|".join(self.trace)))
        try:
            events._set_running_loop(None)
            self.loop._thread_id = None
            self.loop._ready.clear()
            self.loop.close()
        except Exception:
            pass

    def fail(self, code):
        if not self.err:
            self.err = code

    def op(self, name, *operands):
        self.trace.append(name + "(" + ",".join(cstr(o) for o in operands) + ")")

    # ------------------------------------------------------------------ CrossHair control flow
    # asyncio turns *any* BaseException raised inside a task step or a callback into a task result /
    # an exception-handler call.  CrossHair steers its search with BaseExceptions (IgnoreAttempt,
    # UnexploredPath, ...): they must not be swallowed, so they are re-raised right after the iteration.
    def _exc_handler(self, loop, ctx):
        e = ctx.get("exception")
        if CONTROL and isinstance(e, CONTROL) and self._ctrl is None:
            self._ctrl = e

    def _task_factory(self, loop, coro, **kw):
        t = asyncio.Task(coro, loop=loop, **kw)
        self._tasks.append(t)
        return t

    def _reraise_control(self):
        if CONTROL:
            with NoTracing():  # concrete objects only
                pending = []
                for t in self._tasks:
                    if not t.done():
                        pending.append(t)
                    elif not t.cancelled():
                        e = t.exception()
                        if e is not None and isinstance(e, CONTROL) and self._ctrl is None:
                            self._ctrl = e
                self._tasks = pending
        if self._ctrl is not None:
            e, self._ctrl = self._ctrl, None
            raise e

    # ------------------------------------------------------------------ stepping
    def step(self):
        self.loop._run_once()
        self._reraise_control()
        self.iterations += 1
        for m in self.monitors:
            m()
        self.evals += 1

    def settle(self):
        n = 0
        while self.loop._ready:
            self.step()
            n += 1
            if n > self.SETTLE_LIMIT:
                raise HarnessError("no quiescence")
        return n

    def ticks(self, t):
        """Run at most t iterations (t may be symbolic and unbounded)."""
        i = 0
        while i < t and self.loop._ready:
            self.step()
            i += 1
        return i

    @property
    def idle(self):
        return not self.loop._ready

    def spawn(self, coro):
        t = asyncio.ensure_future(coro, loop=self.loop)
        self.extra_tasks.append(t)
        return t

    def drain(self, rounds=200, newest_first=False):
        """Finish all work: release one gate at a time (blocked slow callbacks first, in creation order - or newest
        first -, then workers in start order), settling after each, until nothing is left to release."""
        self.settle()
        for _ in range(rounds):
            moved = False
            for s in (reversed(self.slow) if newest_first else self.slow):
                if not s[2].done():
                    s[2].set_result(None)
                    moved = True
                    break
            if not moved:
                for r in self.W:
                    if not r["gate"].done():
                        r["gate"].set_result(None)
                        moved = True
                        break
            if not moved:
                return
            self.settle()
        raise HarnessError("drain did not converge")

    # ------------------------------------------------------------------ embedded ops
    def arm(self, site, thunk):
        self.armed.setdefault(site, []).append(thunk)

    def at_site(self, site):
        """Called by harness-owned user code; runs at most one armed op. Never raises."""
        q = self.armed.get(site)
        if not q or self.excluded or self.err:
            return
        thunk = q.pop(0)
        try:
            thunk()
        except Excluded as e:
            self.excluded = str(e)
        except PoolException:
            pass
        except HarnessError:
            raise
        except Exception as e:  # an embedded op must not fail in any other way
            self.fail(9000)
            self.trace.append("embedded-exc:%s" % type(e).__name__)

    # ------------------------------------------------------------------ user code: workers
    def worker(self, req, name="fn", site=None, swallow=0, park=None, park_from=0):
        """Coroutine function whose invocations block on their own gate future.
        swallow > 0: the worker catches its first `swallow` CancelledErrors and carries on waiting (a coroutine
        that treats the first cancellation as a request and not as an order).
        park: a callable returning an awaitable (e.g. pool.until_closed); invocations number park_from and later of this
        request wait on *that* instead of their own gate - several tasks suspended in the same library call."""
        w = self

        async def fn(*a, **k):
            t = asyncio.current_task()
            tname = t.get_name()
            rec = {"req": req, "args": a, "kw": k, "state": "run", "cancels": 0, "name": tname, "task": t}
            try:
                rec["id"] = int(tname.rsplit("-", 1)[1])
            except Exception:
                rec["id"] = -1
            fut = w.loop.create_future()
            rec["gate"] = fut
            rec["wid"] = len(w.W)
            parked = park is not None and sum(1 for x in w.W if x["req"] == req) >= park_from
            rec["parked"] = parked
            w.W.append(rec)
            w.live += 1
            if w.live > w.peak:
                w.peak = w.live
            for m in w.monitors:
                m()
            w.at_site("wstart")
            rec["left"] = swallow
            result = None
            mode = w.instant.pop(0) if w.instant else 0
            if mode:
                # finishes inside its very first step: no suspension between creation and the end of the coroutine
                rec["instant"] = mode
                w.live -= 1
                rec["finished_at"] = len(w.cb)
                if mode == 2:
                    rec["state"] = "failed"
                    e = RuntimeError("failed before the first await")
                    rec["exc"] = e
                    w.injected.append(e)
                    raise e
                rec["state"] = "ok"
                return ("instant", rec["wid"])
            if w.selfret and w.selfret[0] is not None:
                # this worker cancels its own task and returns at once, without reaching another await
                pool_, w.selfret[0] = w.selfret[0], None
                try:
                    pool_.cancel(rec["id"])
                    rec["selfret"] = True
                except PoolException:
                    pass
                if rec.get("selfret"):
                    rec["state"] = "ok"
                    w.live -= 1
                    rec["finished_at"] = len(w.cb)
                    return None
            try:
                while True:
                    try:
                        result = await (park() if parked else rec["gate"])
                        rec["state"] = "ok"
                        break
                    except asyncio.CancelledError as ce:
                        rec["cancels"] += 1
                        rec["cancel_args"] = ce.args
                        if rec["left"] > 0:
                            rec["left"] -= 1
                            rec["gate"] = w.loop.create_future()
                            continue
                        rec["state"] = "cancelled"
                        raise
            except asyncio.CancelledError:
                raise
            except Exception:
                rec["state"] = "failed"
                raise
            finally:
                w.live -= 1
                rec["finished_at"] = len(w.cb)
            return result

        fn.__name__ = name
        fn.__qualname__ = name
        return fn

    def callsite(self, req, inner, raising=(), proxy=False, decorated=False):
        """A 'coroutine function' that raises synchronously when called, for the chosen call indices.
        proxy: its calls return a non-native Coroutine object wrapping the real coroutine.
        decorated: it poses as a functools.wraps-style decorator around a function with one more (keyword-only,
        required) parameter that the decorator supplies itself - its *advertised* signature (`__wrapped__`) does not
        accept the caller's arguments although every call succeeds."""
        w = self

        def fn(*a, **k):
            n = w.calls.get(req, 0)
            w.calls[req] = n + 1
            for r in raising:
                if n == r:
                    raise ValueError("call-site fault %d" % n)
            return CoroProxy(inner(*a, **k)) if proxy else inner(*a, **k)

        fn.__name__ = inner.__name__
        fn._is_coroutine = asyncio.coroutines._is_coroutine
        if decorated:
            async def declared(*a, injected_by_decorator, **k):      # never called
                raise AssertionError
            declared.__name__ = inner.__name__
            fn.__wrapped__ = declared
        return fn

    def release(self, wid, value=None):
        """Let worker wid return `value` (default None)."""
        if 0 <= wid < len(self.W) and not self.W[wid]["gate"].done():
            self.W[wid]["gate"].set_result(value)
            return True
        return False

    def failw(self, wid, exc=None):
        if 0 <= wid < len(self.W) and not self.W[wid]["gate"].done():
            e = exc if exc is not None else ValueError("worker fault %d" % wid)
            self.W[wid]["exc"] = e
            self.injected.append(e)
            self.W[wid]["gate"].set_exception(e)
            return True
        return False

    def cb_release(self, k):
        """Release the k-th still-blocked slow callback (creation order)."""
        j = 0
        for s in self.slow:
            if not s[2].done():
                if j == k:
                    s[2].set_result(None)
                    return True
                j += 1
        return False

    def cb_cancel(self, k):
        """Cancel the future the k-th still-blocked slow callback awaits: a CancelledError escapes that callback."""
        j = 0
        for s in self.slow:
            if not s[2].done():
                if j == k:
                    s[2].cancel()
                    return True
                j += 1
        return False

    # ------------------------------------------------------------------ user code: callbacks
    def callbacks(self, kind, pool_ref, raise_end=(), raise_cancel=()):
        """kind: 0 none, 1 plain, 2 coroutine, 3 slow (gated) coroutine, 4 coroutine function produced by a
        functools.wraps-style adapter around a plain function (its __wrapped__ is not a coroutine function),
        5 plain callbacks behind callable objects that are falsy.
        raise_end / raise_cancel: task ids whose callback raises after recording."""
        if kind == 4:
            import functools
            e2, c2 = self.callbacks(2, pool_ref, raise_end, raise_cancel)

            def plain_end(i):
                raise AssertionError("the wrapped plain function is never what the pool should call")

            def plain_cancel(i):
                raise AssertionError("the wrapped plain function is never what the pool should call")

            @functools.wraps(plain_end)
            async def ecb4(i):
                return await e2(i)

            @functools.wraps(plain_cancel)
            async def ccb4(i):
                return await c2(i)
            return ecb4, ccb4
        if kind == 5:
            e1, c1 = self.callbacks(1, pool_ref, raise_end, raise_cancel)

            class Collector(list):
                """A callable *object* that is falsy (an id recorder that happens to be empty): still a callback."""

                def __init__(self, fn):
                    super().__init__()
                    self.fn = fn

                def __call__(self, i):
                    return self.fn(i)
            return Collector(e1), Collector(c1)
        w = self
        if kind == 0:
            return None, None

        def rec(k, i):
            p = pool_ref[0]
            w.cb.append((k, i, i in p._tasks_running, i in p._tasks_cancelled, i in p._tasks_ended,
                         p.num_running, p.num_cancelled, p.num_ended, asyncio.current_task().get_name()))

        if kind == 1:
            def ecb(i):
                rec("end", i)
                w.at_site("endcb")
                rec("end-done", i)
                for r in raise_end:
                    if r == i:
                        e = CallbackFault("end-callback fault %d" % i)
                        w.injected.append(e)
                        raise e

            def ccb(i):
                rec("cancel", i)
                w.at_site("cancelcb")
                rec("cancel-done", i)
                for r in raise_cancel:
                    if r == i:
                        e = CallbackFault("cancel-callback fault %d" % i)
                        w.injected.append(e)
                        raise e

            return ecb, ccb

        async def ecb(i):
            rec("end", i)
            w.at_site("endcb")
            if kind == 3:
                f = w.loop.create_future()
                w.slow.append(["end", i, f])
                w.incb.add(i)
                try:
                    await f
                finally:
                    w.incb.discard(i)
            rec("end-done", i)
            for r in raise_end:
                if r == i:
                    e = CallbackFault("end-callback fault %d" % i)
                    w.injected.append(e)
                    raise e

        async def ccb(i):
            rec("cancel", i)
            w.at_site("cancelcb")
            if kind == 3:
                f = w.loop.create_future()
                w.slow.append(["cancel", i, f])
                w.incb.add(i)
                try:
                    await f
                finally:
                    w.incb.discard(i)
            rec("cancel-done", i)
            for r in raise_cancel:
                if r == i:
                    e = CallbackFault("cancel-callback fault %d" % i)
                    w.injected.append(e)
                    raise e

        return ecb, ccb

    # ------------------------------------------------------------------ user code: iterables
    def counting_gen(self, rec, items, iterfail=-1):
        """Generator over items; rec['pulled'] counts __next__ calls that produced an element.
        iterfail >= 0: the iterable itself raises when asked for element number iterfail."""
        w = self

        def gen():
            for n_, it in enumerate(items):
                if n_ == iterfail:
                    rec["iter_raised"] = True
                    e = RuntimeError("argument source broke")
                    rec["iter_exc"] = e
                    w.injected.append(e)
                    raise e
                rec["pulled"] += 1
                if rec.get("cancel_seen"):
                    rec["advanced_after_cancel"] = True
                for m in w.monitors:
                    m()
                w.at_site("iter")
                yield it
            rec["exhausted"] = True

        return gen()

    # ------------------------------------------------------------------ triggers (known findings)
    def t1_guard(self, pool, ids):
        """T1: a cancellation is about to reach a task whose wrapper coroutine has not started."""
        if "T1" not in self.open:
            return
        for i in ids:
            t = pool._tasks_running.get(i)
            if t is not None and unstarted(t):
                raise Excluded("T1")

    def pending_spawner(self, pool) -> bool:
        """T2 precondition: some apply/start spawner will call _start_task (and so re-check the lock) again:
        it has not begun and num > 0, or its loop index i is below num - 1."""
        for tasks in pool._group_meta_tasks_running.values():
            for t in tasks:
                if t.done():
                    continue
                co = t.get_coro()
                if getattr(co, "__name__", "") not in ("_apply_spawner", "_start_num"):
                    continue
                fr = co.cr_frame
                if fr is None:
                    continue
                loc = fr.f_locals
                if unstarted(t):
                    if loc.get("num", 0) > 0:
                        return True
                elif "i" in loc and loc["i"] < loc["num"] - 1:
                    return True
        return False

    def t2_guard(self, pool):
        if "T2" in self.open and self.pending_spawner(pool):
            raise Excluded("T2")

    def t3_guard(self, pool, ret_exc=False):
        """T3: gather_and_close(return_exceptions=False) while a spawner that was cancelled before its first
        step is still remembered: the first gather ends at once with a suppressed CancelledError."""
        if "T3" not in self.open or ret_exc:
            return
        for t in pool._meta_tasks_cancelled:
            if any(t is u for u in self.unstarted_cancelled_spawners):
                raise Excluded("T3")

    # ------------------------------------------------------------------ guarded pool operations
    def do_cancel(self, pool, ids, msg=None):
        """pool.cancel(*ids[, msg=msg]) with the T1 guard; returns the exception instance or None."""
        deliver = True
        for i in ids:
            if i not in pool._tasks_running:
                deliver = False
        if deliver:
            self.t1_guard(pool, ids)
        try:
            if msg is None:
                pool.cancel(*ids)
            else:
                pool.cancel(*ids, msg=msg)
        except PoolException as e:
            return e
        return None

    def _note_unstarted_spawners(self, pool, names):
        for nm in names:
            for t in pool._group_meta_tasks_running.get(nm, ()):
                if not t.done() and unstarted(t):
                    self.unstarted_cancelled_spawners.append(t)

    def do_cancel_group(self, pool, name):
        reg = pool._task_groups.get(name)
        if reg is not None:
            self.t1_guard(pool, list(reg))
            self._note_unstarted_spawners(pool, [name])
        try:
            pool.cancel_group(name)
        except PoolException as e:
            return e
        return None

    def do_cancel_all(self, pool):
        self.t1_guard(pool, list(pool._tasks_running))
        self._note_unstarted_spawners(pool, list(pool._task_groups))
        pool.cancel_all()

    def do_stop(self, pool, n):
        ids = []
        j = 0
        for tid in reversed(list(pool._tasks_running)):
            if j >= n:
                break
            ids.append(tid)
            j += 1
        self.t1_guard(pool, ids)
        return pool.stop(n)

    def do_lock(self, pool):
        self.t2_guard(pool)
        pool.lock()

    def do_gather(self, pool, ret_exc):
        self.t2_guard(pool)
        self.t3_guard(pool, ret_exc)
        return self.spawn(pool.gather_and_close(return_exceptions=ret_exc))


def task_outcome(t):
    """('pending'|'ok'|'cancelled'|'exc', exception-or-None) without ever raising CancelledError."""
    if not t.done():
        return "pending", None
    if t.cancelled():
        return "cancelled", None
    e = t.exception()
    if e is not None:
        return "exc", e
    return "ok", None
