"""Harness family description shared by harness modules and the runner."""
from dataclasses import dataclass, field
from typing import List, Optional


@dataclass
class Family:
    name: str                 # short name, unique within the property
    fn: str                   # function in the harness module: fn(*params, _twin=False) -> int
    params: List[str]         # int parameters, all symbolic
    pre: List[str]            # bounds: one PEP316 `pre:` line each
    parts: List[List[str]]    # partitions: extra `pre:` conjuncts, one CrossHair process each
    twin_pre: List[str] = field(default_factory=list)   # narrows the reachability twin's search (solver still finds it)
    twin_args: Optional[List[int]] = None               # a concrete input expected to reach code 77 (sanity only)
    cond_timeout: Optional[float] = None                # per-condition CPU budget override (seconds)
    weight: int = 1
    types: dict = field(default_factory=dict)           # param -> annotation (default "int")
    env: dict = field(default_factory=dict)             # extra environment for this family's CrossHair processes
