"""known_findings.json handling: witness replay, KNOWN-FINDING lines, open triggers.  DESIGN 2.4.

The file is committed and never written at run time.
"""
import json
import os

VERIF = os.path.dirname(os.path.dirname(os.path.abspath(__file__)))
PATH = os.environ.get("VERIF_FINDINGS") or os.path.join(VERIF, "known_findings.json")


def load():
    if not os.path.exists(PATH):
        return {"findings": [], "fixed": []}
    return json.load(open(PATH))


def evaluate(pid, replay):
    """Replay every witness listed for `pid` with all triggers closed.

    A witness that still fails with its recorded clause keeps its trigger open (histories in that
    class are excluded and a KNOWN-FINDING line is printed); one that passes closes the trigger, so
    nothing is excluded and the defect's return would be reported as a VIOLATION.
    """
    data = load()
    lines, open_trig, report = [], [], []
    for f in data.get("findings", []):
        if f["property"] != pid:
            continue
        w = f["witness"]
        res = {}
        still = True
        for loop in ("det", "stock"):
            r = replay(w["module"], w["fn"], w["args"], loop, ())
            res[loop] = r["code"] if r["err"] is None else r["err"]
            if r["code"] != w["code"]:
                still = False
        report.append({"id": f["id"], "trigger": f["trigger"], "witness": w, "replayed": res, "still_fails": still})
        if still:
            lines.append("KNOWN-FINDING: property=%s %s: %s [witness %s%s -> clause %s]" % (
                pid, f["trigger"], f["what"], w["fn"], tuple(w["args"]), w["code"]))
            if f["trigger"] not in open_trig:
                open_trig.append(f["trigger"])
    return {"lines": lines, "open": open_trig, "report": report}
