"""CrossHair plugin loaded with --extra_plugin by every check.

Everything lives inside _install(): CrossHair exec()s plugin files, and module
globals are not visible to nested defs there.

Stubs installed (each is part of every claim, see DESIGN 2.1):
 * format(obj) of a plain user object -> str(obj) (CrossHair's default deep-copies
   the pool, its loop and sockets to "realise" it and hangs);
 * (VERIF_REAL_LRU_CACHE=1, set by the runner for every process) CrossHair's "lru_cache has no cache" stub is removed;
 * format(symbolic int) -> opaque placeholder (CrossHair's str(int) model forks
   once per digit count, without end for unbounded ints). Only exception
   *messages* ever contain it.
Instrumentation:
 * a per-process path log fd (VERIF_PATHLOG) opened before the audit wall;
 * z3.Solver.check wrapped to count queries and solver seconds.
"""


def _install():
    import atexit
    import builtins
    import json
    import os
    import time

    import crosshair.core as core
    import z3
    from crosshair.core import NoTracing
    from crosshair.libimpl.builtinslib import SymbolicInt

    _orig = core._PATCH_REGISTRATIONS[format]

    def _format(obj, format_spec=""):
        with NoTracing():
            t = type(obj)
            symint = isinstance(obj, SymbolicInt)
            plain_user = (
                (not t.__module__.startswith("crosshair"))
                and t not in (list, dict, set, tuple, frozenset, str, int, float, bool, bytes, type(None))
                and t.__format__ is object.__format__
            )
        if symint:
            return "<symbolic-int>"
        if format_spec == "" and plain_user:
            return str(obj)
        return _orig(obj, format_spec)

    core._PATCH_REGISTRATIONS[format] = _format

    if os.environ.get("VERIF_REAL_LRU_CACHE") == "1":
        # CrossHair calls through functools.lru_cache wrappers as if they had no cache, which hides any defect that
        # consists of remembering something (seeded change C17-a).  The runner sets this for every process.
        from functools import _lru_cache_wrapper
        core._PATCH_REGISTRATIONS.pop(_lru_cache_wrapper.__call__, None)

    path = os.environ.get("VERIF_PATHLOG")
    stats = {"checks": 0, "solver_s": 0.0}
    if path:
        builtins._verif_log_fd = os.open(path, os.O_WRONLY | os.O_CREAT | os.O_APPEND, 0o644)
    oc = z3.Solver.check

    def check(self, *a):
        t0 = time.perf_counter()
        try:
            return oc(self, *a)
        finally:
            stats["checks"] += 1
            stats["solver_s"] += time.perf_counter() - t0

    z3.Solver.check = check

    def fin():
        if path:
            os.write(builtins._verif_log_fd, (json.dumps({"stats": stats}) + "\n").encode())

    atexit.register(fin)


_install()
