import argparse
import os
import sys

from . import runner


def main():
    ap = argparse.ArgumentParser(prog="vcheck")
    ap.add_argument("pid")
    ap.add_argument("--tier", choices=["quick", "thorough"], default=os.environ.get("VERIF_TIER") or "quick")
    ap.add_argument("--replay")
    a = ap.parse_args()
    if a.tier not in ("quick", "thorough"):
        a.tier = "quick"
    seed = int(os.environ.get("VERIF_SEED", "0") or 0)
    if a.replay:
        sys.exit(runner.do_replay(a.pid.upper(), a.replay))
    sys.exit(runner.run_property(a.pid.upper(), a.tier, seed))


if __name__ == "__main__":
    main()
