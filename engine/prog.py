"""Program interpreter over the pool action alphabet (DESIGN section 4).

An Interp drives one real pool inside a World.  Every action records a concrete
op in the World's trace; operands may be symbolic.
"""
from __future__ import annotations

from asyncio_taskpool import SimpleTaskPool, TaskPool
from asyncio_taskpool.exceptions import PoolException

from .world import Excluded, World, task_outcome

SITES = (None, "wstart", "endcb", "cancelcb", "iter")


def clip(a, lo, hi):
    if a < lo:
        return lo
    if a > hi:
        return hi
    return a


class Interp:
    def __init__(self, w: World, pool, cbkind=1, raise_end=(), raise_cancel=()):
        self.w = w
        self.pool = pool
        self.pool_ref = [pool]
        self.simple = isinstance(pool, SimpleTaskPool)
        self.reqs = []       # request records in request order
        self.flushes = []    # (task, ret_exc, snapshot)
        self.gather = None   # (task, ret_exc)
        self.waiter = None
        self.cbkind = cbkind
        self.ecb, self.ccb = w.callbacks(cbkind, self.pool_ref, raise_end, raise_cancel)
        self.rejected = []   # exceptions raised by spawn requests
        self.cancel_ids = []  # ids successfully passed to cancel()
        self.flush_cancelled = []

    # ------------------------------------------------------------ requests
    def _newreq(self, kind, **kw):
        r = {"kind": kind, "idx": len(self.reqs), "cancelled": False, "cancel_seen": False, "group": None,
             "pulled": 0, "at_iter": self.w.iterations}
        r.update(kw)
        return r

    def apply(self, num, group=None, args=(), kwargs=None, raising=(), fname="fn", swallow=0, proxy=False, park=None, park_from=0,
              decorated=False):
        r = self._newreq("apply", num=num, args=args, kwargs=kwargs)
        self.w.op("apply", num, group)
        fn = self.w.worker(r["idx"], fname, swallow=swallow, park=park, park_from=park_from)
        if raising or proxy or decorated:
            fn = self.w.callsite(r["idx"], fn, raising, proxy, decorated)
        r["raising"] = raising
        try:
            r["group"] = self.pool.apply(fn, args=args, kwargs=kwargs, num=num, group_name=group,
                                         end_callback=self.ecb, cancel_callback=self.ccb)
        except (PoolException, ValueError) as e:
            self.rejected.append(e)
            return None
        self.reqs.append(r)
        return r

    def map(self, L, conc, stars=0, group=None, bad=-1, fname="fn", badkind=0, iterfail=-1, empty=-1):
        """map/starmap/doublestarmap over a counting generator of L elements; element `bad` (if any) makes the call raise:
        badkind 0 = func rejects that element's (well-formed) arguments; badkind 1 = the element cannot even be unpacked
        (a non-iterable for starmap, a non-mapping for doublestarmap)."""
        r = self._newreq(("map", "starmap", "doublestarmap")[stars], L=L, conc=conc, stars=stars, bad=bad)
        self.w.op(r["kind"], L, conc, group)
        items = []
        for j in range(L):
            if stars == 0:
                items.append(("el", j))
            elif stars == 1:
                items.append((("el", j), j))
            else:
                items.append({"x": ("el", j), "y": j})
        for j in range(L):
            if j == empty and stars >= 1:
                items[j] = () if stars == 1 else {}      # an element with nothing to unpack: func() is the call
        r["items"] = items
        fn = self.w.worker(r["idx"], fname)
        if bad >= 0 and badkind == 1 and stars >= 1:
            for j in range(L):
                if j == bad:
                    items[j] = 7 if stars == 1 else [1, 2]
        elif bad >= 0:
            inner = fn

            def fnb(*a, **k):
                # the call for element `bad` raises synchronously (as wrong arguments would)
                if (stars == 0 and a == (("el", bad),)) or (stars == 1 and a == (("el", bad), bad)) \
                        or (stars == 2 and k == {"x": ("el", bad), "y": bad}):
                    raise TypeError("call-site fault for element %d" % bad)
                return inner(*a, **k)
            fnb.__name__ = fname
            fnb._is_coroutine = __import__("asyncio").coroutines._is_coroutine
            fn = fnb
        # what the iterable really yields: for starmap the argument containers vary (tuple, list, one-shot iterator) -
        # func(*x) takes any iterable; r["items"] keeps the canonical tuples for the oracles
        shown = list(items)
        if stars == 1:
            for j in range(L):
                if isinstance(items[j], tuple) and j % 3 == 1:
                    shown[j] = list(items[j])
                elif isinstance(items[j], tuple) and j % 3 == 2:
                    shown[j] = iter(items[j])
        gen = self.w.counting_gen(r, shown, iterfail)
        meth = (self.pool.map, self.pool.starmap, self.pool.doublestarmap)[stars]
        try:
            r["group"] = meth(fn, gen, num_concurrent=conc, group_name=group,
                              end_callback=self.ecb, cancel_callback=self.ccb)
        except (PoolException, ValueError) as e:
            self.rejected.append(e)
            return None
        self.reqs.append(r)
        return r

    def start(self, num):
        r = self._newreq("start", num=num)
        self.w.op("start", num)
        try:
            r["group"] = self.pool.start(num)
        except (PoolException, ValueError) as e:
            self.rejected.append(e)
            return None
        self.reqs.append(r)
        return r

    # ------------------------------------------------------------ completions
    def release(self, a, value=None):
        self.w.op("rel", a)
        return self.w.release(a, value)

    def selfret(self):
        """The next worker that starts cancels its own task and returns at once."""
        self.w.op("arm-selfret")
        self.w.selfret[0] = self.pool

    def fail(self, a):
        self.w.op("fail", a)
        return self.w.failw(a)

    def cb_release(self, a):
        self.w.op("cbrel", a)
        return self.w.cb_release(a)

    def cb_cancel(self, a):
        self.w.op("cbcancel", a)
        return self.w.cb_cancel(a)

    # ------------------------------------------------------------ cancellation
    def cancel(self, *ids, msg=None):
        self.w.op("cancel", *ids)
        e = self.w.do_cancel(self.pool, ids, msg)
        if e is None:
            self.cancel_ids += list(ids)
        return e

    def _mark_cancelled(self, r):
        if not r["cancelled"]:
            r["cancelled"] = True
            r["cancel_seen"] = True
            r["started_at_cancel"] = sum(1 for x in self.w.W if x["req"] == r["idx"])
            r["pulled_at_cancel"] = r["pulled"]
            r["cancel_iter"] = self.w.iterations

    def live_reqs(self):
        return [r for r in self.reqs if not r["cancelled"]]

    def cancel_group(self, k):
        """Cancel the k-th not-yet-cancelled request's group (no-op when out of range)."""
        live = self.live_reqs()
        self.w.op("cgroup", k)
        if 0 <= k < len(live):
            r = live[k]
            e = self.w.do_cancel_group(self.pool, r["group"])
            if e is None:
                self._mark_cancelled(r)
            return e
        return None

    def cancel_all(self):
        self.w.op("call")
        self.w.do_cancel_all(self.pool)
        for r in self.reqs:
            self._mark_cancelled(r)

    def stop(self, n):
        self.w.op("stop", n)
        return self.w.do_stop(self.pool, n)

    # ------------------------------------------------------------ flush / gather / lock
    def flush(self, ret_exc=True):
        self.w.op("flush", ret_exc)
        snap = {"ended": set(self.pool._tasks_ended), "cancelled": set(self.pool._tasks_cancelled),
                "incb": set(self.w.incb), "cb_len": len(self.w.cb)}
        t = self.w.spawn(self.pool.flush(return_exceptions=ret_exc))
        self.flushes.append((t, ret_exc, snap))
        return t

    def cancel_flush(self):
        """Cancel the most recent flush() call that is still pending (e.g. a wait_for() around it timed out)."""
        self.w.op("flushx")
        for t, _, _ in reversed(self.flushes):
            if not t.done():
                t.cancel()
                self.flush_cancelled.append(t)
                return True
        return False

    def gather_and_close(self, ret_exc=False):
        self.w.op("gather", ret_exc)
        if self.gather is None:
            t = self.w.do_gather(self.pool, ret_exc)
            self.gather = (t, ret_exc)
        return self.gather[0]

    def until_closed(self):
        self.w.op("until_closed")
        if self.waiter is None:
            self.waiter = self.w.spawn(self.pool.until_closed())
        return self.waiter

    def lock(self):
        self.w.op("lock")
        self.w.do_lock(self.pool)

    def unlock(self):
        self.w.op("unlock")
        self.pool.unlock()

    # ------------------------------------------------------------ helpers for oracles
    def workers_of(self, r):
        return [x for x in self.w.W if x["req"] == r["idx"]]

    def forgetting(self):
        return bool(self.flushes) or self.gather is not None


# ---------------------------------------------------------------------------------- generic driver
def select(alpha, x):
    """Map the (symbolic) selector x to the op name; forks once per alphabet entry."""
    for k in range(len(alpha)):
        if x == k:
            return alpha[k]
    return "nop"


def site_of(s):
    for k in range(1, len(SITES)):
        if s == k:
            return SITES[k]
    return None


def act(it, name, a):
    """Interpret one op of the shared alphabet; `a` is its (symbolic) operand."""
    if name == "nop":
        return
    if name == "apply":
        it.apply(clip(a, 0, 2))
    elif name == "apply1":
        it.apply(1)
    elif name == "apply2":
        it.apply(2)
    elif name == "apply3":
        it.apply(3)
    elif name == "again":
        # one more single-invocation request of the pool's own kind, with the same function as the earlier ones
        if hasattr(it.pool, "start"):
            it.start(1)
        else:
            it.apply(1)
    elif name == "start":
        it.start(clip(a, 0, 2))
    elif name == "start2":
        it.start(2)
    elif name == "map":
        it.map(3, clip(a, 1, 2))
    elif name == "map1":
        it.map(3, 1)
    elif name == "map2":
        it.map(3, 2)
    elif name == "starmap2":
        it.map(3, 2, stars=1)
    elif name == "dstarmap2":
        it.map(3, 2, stars=2)
    elif name == "rel":
        it.release(a)
    elif name == "fail":
        it.fail(a)
    elif name == "relexc":
        it.release(a, value=RuntimeError("a result, not a failure"))
    elif name == "selfret":
        it.selfret()
    elif name == "cbrel":
        it.cb_release(a)
    elif name == "cbcancel":
        it.cb_cancel(a)
    elif name == "cancel":
        it.cancel(a)
    elif name == "cancel2":
        it.cancel(a, a)
    elif name == "cgroup":
        it.cancel_group(a)
    elif name == "call":
        it.cancel_all()
    elif name == "stop":
        it.stop(a)
    elif name == "flush":
        it.flush(True)
    elif name == "flushF":
        it.flush(False)
    elif name == "flushx":
        it.cancel_flush()
    elif name == "lock":
        it.lock()
    elif name == "unlock":
        it.unlock()
    elif name == "gather":
        it.gather_and_close(False)
    elif name == "gatherT":
        it.gather_and_close(True)
    else:
        raise ValueError("unknown op " + name)


def drive(w, it, alpha, steps, t, after=None, site=None, newest_first=False):
    """steps: [(x, a), ...].  Step 0 is followed by ticks(t) (early placement of step 1), every other
    step by settle().  If `site` is given, step 1 is *embedded*: armed to run inside the next
    harness-owned user-code site of that kind instead of at the iteration boundary.
    `after()` is the property's idle-point check.  Raises Excluded when an open trigger fires."""
    for k, (x, a) in enumerate(steps):
        name = select(alpha, x)
        if k == 1 and site is not None:
            w.op("arm", site)
            w.arm(site, lambda n=name, v=a: act(it, n, v))
        else:
            act(it, name, a)
        if k == 0:
            w.ticks(t)
        else:
            w.settle()
        if w.excluded:
            raise Excluded(w.excluded)
        if after is not None and k > 0:
            after()
    w.drain(newest_first=newest_first)
    if w.excluded:
        raise Excluded(w.excluded)
    if after is not None:
        after()


def parts_product(**ranges):
    """[['x1 == 0','x2 == 0'], ...] for the cartesian product of the given variable ranges."""
    out = [[]]
    for var, vals in ranges.items():
        out = [p + ["%s == %d" % (var, v)] for p in out for v in vals]
    return out


def refine(parts, when, var, values):
    """Split every partition that contains one of the `when` conjuncts further by `var` (load balancing)."""
    out = []
    for p in parts:
        if any(w in p for w in when):
            out += [p + ["%s == %d" % (var, v)] for v in values]
        else:
            out.append(p)
    return out
